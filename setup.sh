#!/bin/sh
# Offline setup: build the gofail CLI from the module cache and warm the build cache
# (engines are rebuilt by every check from /repo's working tree; this only makes the
# dependency packages - nats-server, race runtime - hot).
set -e
cd "$(dirname "$0")"
GO=/root/go/pkg/mod/golang.org/toolchain@v0.0.1-go1.25.4.linux-amd64/bin/go
export GOTOOLCHAIN=local GOFLAGS=-mod=mod GOPROXY=off
unset GOSUMDB
mkdir -p bin evidence replays
(cd harness && $GO build -o ../bin/gofail go.etcd.io/gofail) || echo "gofail CLI not built (amplifier sites stay inert)"
for e in sim pure natseng; do
  (cd harness && $GO test -c -tags verif -trimpath -o /dev/null ./$e)
done
(cd harness && $GO test -c -race -tags verif -trimpath -o /dev/null ./rt)
echo setup ok
