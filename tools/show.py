import json,sys
d=json.load(open(sys.argv[1]))
inst=sys.argv[2] if len(sys.argv)>2 else None
lo=int(sys.argv[3]) if len(sys.argv)>3 else 0
hi=int(sys.argv[4]) if len(sys.argv)>4 else 10**9
for v in d.get('violations') or []: print('VIOL',v)
print('ACTIONS',json.dumps(d['spec']['actions']))
print('INSTS',json.dumps(d['spec']['insts']), 'ttl',d['spec']['ttl'],'lat',d['spec']['lat'],'watch',d['spec']['watch'])
for e in d.get('trace') or []:
    if e['seq']<lo or e['seq']>hi: continue
    if inst and e.get('inst') not in (inst,'outside',None,'') and e['kind'] not in ('teardown',): continue
    if e['kind'] in ('quiescent','ctx.state','record','claim.ok') and '-q' not in sys.argv: continue
    vt=e.pop('vt')/1e9; seq=e.pop('seq'); g=e.pop('g'); k=e.pop('kind')
    print(f"{seq:6d} {vt:9.4f} g{g:<6d} {e.pop('inst','-'):8s} {k:14s}", json.dumps(e)[:260])
