#!/bin/sh
# usage: tools/try_seed.sh <ID> <tier> [props...]  — verify the seed, then run the given checks (default: its own property) against it
ID=$1; TIER=${2:-quick}; shift 2 2>/dev/null
PROPS=${*:-$ID}
SUF=${SEEDSUF:-}
/verif/tools/verify_seed.sh $ID > /tmp/v/$ID$SUF.verify.log 2>&1
grep -A3 "^== \|PATCH DOES\|DOES NOT" /tmp/v/$ID$SUF.verify.log | grep -v "^--" | cut -c1-200
for p in $PROPS; do
  echo "#### ./check $p $TIER on seeded $ID$SUF"
  (cd /verif && VERIF_REPO=/tmp/v/$ID$SUF ./check $p $TIER 2>&1 | cut -c1-260 | head -12)
done
