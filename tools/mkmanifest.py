#!/usr/bin/env python3
"""Writes MANIFEST.json from checkcfg.py (keeps the two in sync)."""
import json, os, sys, subprocess
sys.path.insert(0, os.path.dirname(os.path.dirname(os.path.abspath(__file__))))
from checkcfg import PROPS

TEXT = {
 "C01": ("offline monitor over the complete caller-tagged mutation log of the reference store across benign, faulty, lifecycle, multi-term and takeover-race scenarios", "§9 C01"),
 "C02": ("online invariant: at every leadership-flag change (inside Metrics.SetIsLeader, under the election mutex) and at every record change/expiry all flags and the live record are read atomically", "§9 C02"),
 "C03": ("enumeration of fault kind x first faulty heartbeat x H, virtual-time demotion bounds checked on every trace", "§9 C03"),
 "C04": ("every ValidateToken/ValidateTokenOrDemote verdict is checked against the record versions live during the call interval, under hostile payloads and races placed by breakpoints", "§9 C04"),
 "C05": ("token uniqueness over every record version written in the run (process-wide), constancy per term, callback/API tokens at quiescent points", "§9 C05"),
 "C06": ("enumeration of removal kind x candidate fault x watch policy; vacancy obligations with bound B at every vacancy/fault-cease/settle/demotion instant", "§9 C06"),
 "C07": ("offline monitor: in fault-free scenarios no term may end, lapse or change token unless the harness stopped the instance", "§9 C07"),
 "C08": ("offline monitor over the ordered callback log and quiescent snapshots (alternation, one promotion per term, mirror invariant)", "§9 C08"),
 "C09": ("enumeration of stop points (store call x phase x stop variant x release delay) plus random lifecycles; post-stop silence, duration bounds, DeleteKey effect, goroutine census, crash/deadlock watchdog", "§9 C09"),
 "C10": ("exhaustive priority/takeover/start-order assignments for 2-3 instances plus race scenarios; safety over every replacement, promptness and final owner in the fault-free class", "§9 C10"),
 "C11": ("generated notification words with lattice gaps, outages and ownership changes; grace timing, verification iff, deadlock watchdog", "§9 C11"),
 "C12": ("exhaustive health-result words x thresholds, multi-term histories; reference counter replay", "§9 C12"),
 "C13": ("hostile payload grammar and outside interference for followers, leaders and takeover candidates; crash / stack overflow / recursion / stall monitors and claim provenance", "§9 C13"),
 "C14": ("differential execution adapter-on-real-server vs reference model, porcupine linearizability of concurrent histories, watch-contract monitor with goroutine census", "§9 C14"),
 "C15": ("generated error trees checked against the laws and the documented classes, plus error values captured from the real client", "§9 C15"),
 "C16": ("full product lattice through leader.NewElection against an independent predicate (exhaustive in the thorough tier)", "§9 C16"),
 "C17": ("big-float oracle for CalculateBackoff, reference automata for RetryWithBackoff/CircuitBreaker under a virtual clock, round timing over SIM traces", "§9 C17"),
 "C18": ("offline monitor over Status() snapshots at quiescent points, recording Metrics and the store log; pollers under load in the RT engine", "§9 C18"),
 "C19": ("promotion callbacks that block on their context; Done() state sampled at quiescent points against term ends", "§9 C19"),
 "C20": ("Go race detector over real-time hammer workloads; report log parsed and normalised to pairs of library functions", "§9 C20"),
}
TECH = {
 "C14": "runtime monitoring: differential testing against a reference model + porcupine linearizability checking + watch-contract monitor (embedded nats-server)",
 "C15": "runtime monitoring: generated inputs against law/class oracles + captured real-client errors",
 "C16": "runtime monitoring: exhaustive lattice enumeration against an independent predicate",
 "C17": "runtime monitoring: reference-model oracles under virtual time (synctest) + trace checker",
 "C20": "Go race detector (-race) over real-time stress workloads, report-log oracle",
}
checks = []
engines = {}
for pid in sorted(PROPS):
    cfg = PROPS[pid]
    text, ref = TEXT[pid]
    engs = sorted({b["engine"] for b in cfg["batches"]})
    for e in engs:
        engines.setdefault(e, []).append(pid)
    checks.append({
        "property_id": pid,
        "quick_cmd": "./check %s quick" % pid,
        "thorough_cmd": "./check %s thorough" % pid,
        "evidence_file": "/verif/evidence/%s.json" % pid,
        "replay_cmd_template": "./check replay {path}",
        "engine": "+".join(engs),
        "level_claimed": {"category": cfg["level"], "text": "runtime monitoring: " + text + ". Held-on-what-was-observed, not a proof.", "design_ref": "DESIGN.md " + ref},
        "level_note": "verdict = held on the executions produced by the fixed case lists (see evidence coverage.rule); trusts the reference store model (calibrated by C14), testing/synctest virtual time, and the monitors' own code; library jitter and goroutine order are uncontrolled so a spec denotes a family of executions",
        "technique": TECH.get(pid, "runtime monitoring: real library in a synctest bubble against a fault-injecting reference store; online + offline trace monitors"),
    })
KIND = {
 "sim": "real library inside a testing/synctest bubble (virtual time) against the fault-injecting reference store; one trace; online and offline monitors",
 "pure": "generated inputs of exported functions against independent oracles (virtual clock where timing matters)",
 "natseng": "library's real adapter against an embedded nats-server; differential, porcupine and watch-contract monitors",
 "rt": "real-time hammer workloads built with -race; race-detector report oracle",
}
hooks = subprocess.run(["git", "-C", "/repo", "log", "--format=%H", "--grep=^verif hooks"], stdout=subprocess.PIPE, text=True).stdout.split()
m = {
 "version": 1,
 "setup_cmd": "./setup.sh",
 "hooks": {
  "guard": "verif",
  "enable": "every check copies /repo's working tree to /var/tmp/verif-build/<id>/repo, runs `gofail enable` on the copy's leader package (turning the `// gofail: var verif...` comments into calls of verifYield) and builds the harness against the copy with `go test -c -tags verif`",
  "baseline_off_cmd": "cd /repo && go test -vet=off -count=1 -timeout 25m ./...",
  "source_commits": hooks,
  "add_only": True,
 },
 "engines": [{"name": e, "path": "harness/" + e, "serves_properties": sorted(ps), "kind_free_text": KIND[e]} for e, ps in sorted(engines.items())],
 "checks": checks,
 "notes": "Known findings and fixed defects: known_findings.json. Design, corrections and mutation drills: DESIGN.md.",
 "not_applicable": [],
}
json.dump(m, open(os.path.join(os.path.dirname(os.path.dirname(os.path.abspath(__file__))), "MANIFEST.json"), "w"), indent=1)
print("wrote MANIFEST.json with", len(checks), "checks; hook commits", hooks)
