#!/bin/sh
# usage: tools/verify_seed.sh <ID> [seeddir]   — confirms a seeded change in a fresh scratch worktree:
#  demo fails with the patch, passes without it, repo suite passes with the patch.
# Uses patch.rebased.diff when present (the original patch.diff was written against an older HEAD).
# Leaves the worktree /tmp/v/<ID> with the patch applied (for VERIF_REPO=/tmp/v/<ID> ./check ...).
ID=$1; ROOT=${SEEDROOT:-/tmp/seed}; SUF=${SEEDSUF:-}
SD=${2:-$ROOT/$ID/out}
[ -d "$SD" ] || SD=/verif/seeded/$ID$SUF
W=/tmp/v/$ID$SUF
unset GOFLAGS GOTOOLCHAIN; export GOPROXY=off
P=$SD/patch.diff; [ -f $SD/patch.rebased.diff ] && P=$SD/patch.rebased.diff
git -C /repo worktree remove --force $W 2>/dev/null; rm -rf $W
git -C /repo worktree add -q --detach $W HEAD || exit 2
cd $W || exit 2
DEMO=$(python3 -c "import json;print(json.load(open('$SD/meta.json')).get('demo_path','leader/seeded_demo_test.go'))")
git apply $P || { echo "PATCH DOES NOT APPLY"; exit 2; }
go build ./... || { echo "DOES NOT COMPILE"; exit 2; }
echo "== suite with patch (demo absent)"
go test -vet=off -count=1 ./... 2>&1 | tail -3
cp $SD/demo_test.go $DEMO
PKG=./$(dirname $DEMO)
RACE=""; [ "$ID" = "C20" ] && RACE="-race"
TAGS=""; grep -q "VerifNewKeyValue" $DEMO && TAGS="-tags verif"
echo "== demo with patch (expect FAIL)"
go test $RACE $TAGS -vet=off -count=1 -run 'Seeded|Demo|SEED' $PKG 2>&1 | tail -4
git apply -R $P
echo "== demo without patch (expect ok)"
go test $RACE $TAGS -vet=off -count=1 -run 'Seeded|Demo|SEED' $PKG 2>&1 | tail -3
git apply $P
rm -f $DEMO
echo "== worktree $W has the patch applied"
