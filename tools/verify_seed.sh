#!/bin/sh
# usage: tools/verify_seed.sh <ID> [seeddir]   — confirms a seeded change in a fresh scratch worktree:
#  demo fails with the patch, passes without it, repo suite passes with the patch.
# Leaves the worktree /tmp/v/<ID> with the patch applied (for VERIF_REPO=/tmp/v/<ID> ./check ...).
ID=$1; SD=${2:-/tmp/seed/$ID/out}
W=/tmp/v/$ID
unset GOFLAGS GOTOOLCHAIN; export GOPROXY=off
git -C /repo worktree remove --force $W 2>/dev/null; rm -rf $W
git -C /repo worktree add -q --detach $W HEAD || exit 2
cd $W || exit 2
DEMO=$(python3 -c "import json;print(json.load(open('$SD/meta.json')).get('demo_path','leader/seeded_demo_test.go'))")
git apply $SD/patch.diff || { echo "PATCH DOES NOT APPLY"; exit 2; }
go build ./... || { echo "DOES NOT COMPILE"; exit 2; }
echo "== suite with patch (demo absent)"
go test -vet=off -count=1 ./... 2>&1 | tail -3
cp $SD/demo_test.go $DEMO
PKG=./$(dirname $DEMO)
echo "== demo with patch (expect FAIL)"
go test -vet=off -count=1 -run 'Seeded|Demo|SEED' $PKG 2>&1 | tail -4
git apply -R $SD/patch.diff
echo "== demo without patch (expect ok)"
go test -vet=off -count=1 -run 'Seeded|Demo|SEED' $PKG 2>&1 | tail -3
git apply $SD/patch.diff
rm -f $DEMO
echo "== worktree $W has the patch applied"
