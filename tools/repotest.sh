#!/bin/sh
# Runs the repository's own suite (guard off) the way BASELINE.json does; prints a summary.
cd /repo || exit 2
unset GOFLAGS GOSUMDB
export GOTOOLCHAIN=auto
export GOPROXY=off
go test -json -vet=off -count=1 -timeout 25m ./... > /tmp/repotest.json 2>/tmp/repotest.err
rc=$?
python3 - <<'PY'
import json
p=f=0; failed=[]
for l in open('/tmp/repotest.json'):
    try: d=json.loads(l)
    except: continue
    if d.get('Test') and d.get('Action')=='pass': p+=1
    if d.get('Test') and d.get('Action')=='fail': f+=1; failed.append(d['Test'])
print('repo suite: pass',p,'fail',f,failed)
PY
git -C /repo status --short
exit $rc
