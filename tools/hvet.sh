#!/bin/sh
# vet + gofmt the harness with the toolchain the checks use
export GOTOOLCHAIN=local GOFLAGS=-mod=mod GOPROXY=off
GO=/root/go/pkg/mod/golang.org/toolchain@v0.0.1-go1.25.4.linux-amd64/bin/go
cd /verif/harness && gofmt -w h sim pure natseng rt && $GO vet -tags verif ./...
