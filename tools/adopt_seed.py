#!/usr/bin/env python3
"""usage: adopt_seed.py <ID> <detected-by text> [note]  — copy a confirmed seeded change into /verif/seeded/<ID>/"""
import json, os, shutil, sys, subprocess
sid, det = sys.argv[1], sys.argv[2]
note = sys.argv[3] if len(sys.argv) > 3 else ""
suf = os.environ.get("SEEDSUF", "")
src = "%s/%s/out" % (os.environ.get("SEEDROOT", "/tmp/seed"), sid)
dst = "/verif/seeded/%s%s" % (sid, suf)
os.makedirs(dst, exist_ok=True)
for f in ("patch.diff", "demo_test.go", "patch.rebased.diff"):
    if os.path.exists(os.path.join(src, f)):
        shutil.copy(os.path.join(src, f), os.path.join(dst, f))
m = json.load(open(os.path.join(src, "meta.json")))
vl = "/tmp/v/%s%s.verify.log" % (sid, suf)
log = open(vl).read() if os.path.exists(vl) else ""
m["base_commit"] = subprocess.run(["git", "-C", "/repo", "rev-parse", "--short", "HEAD"], stdout=subprocess.PIPE, text=True).stdout.strip()
m["confirmed_in_scratch_worktree"] = {
    "how": "tools/verify_seed.sh %s: fresh worktree of /repo HEAD, git apply patch.diff, repo suite with the patch, demo with the patch (must fail), demo without the patch (must pass)" % sid,
    "log_tail": [l for l in log.split("\n") if l.strip()][-14:],
}
m["detected_by"] = det
if os.path.exists(os.path.join(src, "patch.rebased.diff")):
    m["patch_note"] = "patch.diff is the change as delivered (against the /repo HEAD of the moment it was written); later fix commits touched the same lines, patch.rebased.diff is the same change ported onto base_commit and is what tools/verify_seed.sh applies"
if note:
    m["note"] = note
json.dump(m, open(os.path.join(dst, "meta.json"), "w"), indent=1)
print("adopted", sid)
