#!/bin/sh
# usage: tools/sweep.sh "<seeds>" <tier> <props...>   — prints verdict lines only
seeds="$1"; tier="$2"; shift 2
cd /verif
for p in "$@"; do for s in $seeds; do
  VERIF_SEED=$s ./check $p $tier > /tmp/sweep-$p-$s.log 2>&1; rc=$?
  echo "rc=$rc $(grep -E "^(C[0-9]+ (quick|thorough))" /tmp/sweep-$p-$s.log | tail -1)"
  grep -E "^(VIOLATION|INCONCLUSIVE|KNOWN-FINDING|NOTE|INFRASTRUCTURE|  clause)" /tmp/sweep-$p-$s.log | cut -c1-220 | head -8
done; done
