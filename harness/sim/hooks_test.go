package sim

// yieldSites is the number of failpoint sites found in the build copy (0 when
// built without the verif tag or without the gofail rewrite).
var yieldSites int
