//go:build verif

package sim

import (
	"strings"

	leader "github.com/ali-assar/NATS-Leader-Election/leader"
	gofail "go.etcd.io/gofail/runtime"

	"verifharness/h"
)

// Installs the yield hook and activates every failpoint the gofail rewrite of
// the build copy created (instantaneous `return` action: the site's body, a
// call to verifYield, runs; delays are decided by the harness, outside any
// gofail lock).
func init() {
	leader.VerifYield = h.YieldHook
	for _, fp := range gofail.List() {
		if strings.Contains(fp, "verif") {
			_ = gofail.Enable(fp, "return")
		}
	}
	yieldSites = len(gofail.List())
}
