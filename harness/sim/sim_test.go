package sim

import (
	"encoding/json"
	"fmt"
	"os"
	"path/filepath"
	"runtime"
	"runtime/debug"
	"strconv"
	"strings"
	"sync"
	"testing"
	"time"

	"verifharness/h"
)

type line struct {
	Begin  string    `json:"begin,omitempty"`
	K      int       `json:"k"`
	Result *h.Result `json:"result,omitempty"`
	Replay string    `json:"replay,omitempty"`
	Spec   *h.Spec   `json:"spec,omitempty"`
}

type replayFile struct {
	Spec  *h.Spec       `json:"spec"`
	Viol  []h.Violation `json:"violations"`
	Fatal string        `json:"fatal,omitempty"`
	Trace []h.Event     `json:"trace,omitempty"`
}

var (
	outMu sync.Mutex
	out   *os.File
)

func emit(l line) {
	b, _ := json.Marshal(l)
	outMu.Lock()
	out.Write(append(b, '\n'))
	outMu.Unlock()
}

func envInt(k string, d int) int {
	if v := os.Getenv(k); v != "" {
		if n, err := strconv.Atoi(v); err == nil {
			return n
		}
	}
	return d
}

var current struct {
	sync.Mutex
	spec          *h.Spec
	k             int
	busy          bool
	startProgress int64
}

func replayDir() string {
	d := os.Getenv("VERIF_REPLAY_DIR")
	if d == "" {
		d = "/verif/replays"
	}
	os.MkdirAll(d, 0o755)
	return d
}

var replayCount = map[string]int{}

func writeReplay(spec *h.Spec, res *h.Result, ev []h.Event, fatal string) string {
	if len(res.Viol) == 0 && fatal == "" {
		return ""
	}
	key := "fatal"
	if len(res.Viol) > 0 {
		key = res.Viol[0].Prop + "-" + res.Viol[0].Sig
	}
	replayCount[key]++
	tr := ev
	if replayCount[key] > 3 {
		tr = nil // keep the spec and finding, not yet another full trace
	}
	p := filepath.Join(replayDir(), spec.Name+".json")
	b, _ := json.Marshal(replayFile{Spec: spec, Viol: res.Viol, Fatal: fatal, Trace: tr})
	os.WriteFile(p, b, 0o644)
	return p
}

// watchdog runs outside any bubble. A mutex deadlock inside a bubble stops
// virtual time for good (a goroutine blocked on sync.Mutex is not durably
// blocked), so no event is ever recorded again.
func watchdog() {
	last := h.Progress.Load()
	idle := 0
	napIdle, napLast := 0, int64(-1)
	slowK, slowSecs := -1, 0
	for tick := 0; ; tick++ {
		time.Sleep(100 * time.Millisecond)
		// a "nap" (virtual time passing while a user-code call is held) that makes no progress
		// for half a second of real time is frozen: the held call sits inside a critical section
		// another goroutine wants. Abandon the scenario; nothing is concluded from it.
		if h.NapActive.Load() > 0 {
			if c := h.Progress.Load(); c == napLast {
				napIdle++
			} else {
				napIdle, napLast = 0, c
			}
			if napIdle >= 5 {
				current.Lock()
				spec, k, busy := current.spec, current.k, current.busy
				current.Unlock()
				if busy {
					res := &h.Result{Name: spec.Name, Class: spec.Class, Seed: spec.Seed, Obs: map[string]int{"abandoned.nap_frozen": 1}, FP: map[string]string{}}
					res.Abandoned = "nap frozen: the held call sits inside a critical section that another goroutine wants (virtual clock cannot advance)"
					emit(line{K: k, Result: res})
					os.Exit(3)
				}
			}
		} else {
			napIdle, napLast = 0, -1
		}
		if tick%10 != 9 {
			continue
		}
		cur := h.Progress.Load()
		current.Lock()
		busy := current.busy
		spec, k := current.spec, current.k
		sp := current.startProgress
		current.Unlock()
		// how long (real time) has this scenario been running? Scenarios take well under a
		// second; one that is still producing events after many seconds is looked at: a deep
		// stack makes every recorded event slower (the goroutine id comes from a stack
		// capture), so a runaway recursion may never reach the event limit.
		if !busy || k != slowK {
			slowK, slowSecs = k, 0
		} else {
			slowSecs++
		}
		slow := busy && slowSecs >= envInt("VERIF_SLOW_S", 10) && cur != last
		if busy && (slow || cur-sp > int64(envInt("VERIF_MAX_EVENTS", 250000))) {
			// runaway: events are produced without bound (e.g. unbounded recursion / spin at zero latency)
			d := fullDump()
			lib, rep := h.CensusOf(d)
			res := &h.Result{Name: spec.Name, Class: spec.Class, Seed: spec.Seed, Obs: map[string]int{}, FP: map[string]string{}}
			// (the runtime prints at most 100 frames of a stack and elides the middle: two
			// functions calling each other show up about 50 times each)
			if rep > 50 || (rep >= 20 && strings.Contains(d, "frames elided...")) {
				res.Viol = append(res.Viol, h.Violation{Prop: stallProp(spec), Clause: "recursion", Sig: "unbounded-recursion:runaway",
					Detail: fmt.Sprintf("a goroutine's stack holds the same library function %d times; %v", rep, lib)})
			} else {
				if slow && cur-sp <= int64(envInt("VERIF_MAX_EVENTS", 250000)) && slowSecs < envInt("VERIF_SLOW_MAX_S", 120) {
					continue // just a slow scenario (loaded machine): keep going, look again later
				}
				res.Inconclusive = "runaway event production without deep recursion"
			}
			p := filepath.Join(replayDir(), spec.Name+".json")
			b, _ := json.Marshal(replayFile{Spec: spec, Viol: res.Viol, Fatal: "runaway\n" + d[:min(len(d), 200000)]})
			os.WriteFile(p, b, 0o644)
			emit(line{K: k, Result: res, Replay: p})
			os.Exit(3)
		}
		if cur != last || !busy {
			last, idle = cur, 0
			continue
		}
		idle++
		if idle < envInt("VERIF_STALL_S", 12) {
			continue
		}
		d1 := fullDump()
		time.Sleep(2 * time.Second)
		d2 := fullDump()
		res := &h.Result{Name: spec.Name, Class: spec.Class, Seed: spec.Seed, Obs: map[string]int{}, FP: map[string]string{}}
		verdict, frames := classifyStall(d1, d2)
		if verdict == "lock-across-store-call" {
			res.Viol = append(res.Viol, h.Violation{Prop: "C09", Clause: "lock-across-store-call", Sig: "lock-held-across-store-call:" + frames,
				Detail: "a store call is in flight on a goroutine that holds a library lock which these are waiting for (a stop call would wait as long as the store takes): " + frames})
			if ls := h.LeadersNow(); len(ls) > 0 {
				// every demotion path needs that lock as well: a leader cut off from the store (the
				// call in flight is not being answered) keeps reporting leadership for as long as
				// the store takes - there is no bound
				res.Viol = append(res.Viol, h.Violation{Prop: "C03", Clause: "lock-across-store-call", Sig: "lock-held-across-store-call:" + frames,
					Detail: fmt.Sprintf("a store call is in flight on a goroutine that holds a library lock while %v report(s) leadership: no demotion can complete before the store answers; waiting for the lock: %s", ls, frames)})
			}
			res.Fatal = "lock-across-store-call"
		} else if verdict == "process-global-wait" {
			prop := stallProp(spec)
			if strings.Contains(frames, "attemptAcquire") || strings.Contains(frames, "attemptPriorityTakeover") || strings.Contains(frames, "checkKeyAndReelect") {
				prop = "C06" // an acquisition attempt that cannot go on, whatever its own store does
			}
			res.Viol = append(res.Viol, h.Violation{Prop: prop, Clause: "process-global-wait", Sig: "blocked-on-state-shared-across-elections:" + frames,
				Detail: "no goroutine runnable in two dumps 2 s apart; a library goroutine of this run waits on a channel that was not made in this run (state shared by all elections of the process, held by earlier runs' unanswered store calls): " + frames})
			res.Fatal = "process-global-wait"
		} else if verdict == "deadlock" {
			props := []string{stallProp(spec)}
			if props[0] == "C11" && strings.Contains(strings.ToLower(frames), "stop") {
				props = append(props, "C09") // a stop call is among the blocked: both properties rule it out
			}
			if strings.Contains(frames, "attemptAcquire") || strings.Contains(frames, "attemptPriorityTakeover") || strings.Contains(frames, "checkKeyAndReelect") {
				props = append(props, "C06") // an acquisition attempt is among the blocked: a vacancy cannot be filled
			}
			for _, prop := range props {
				res.Viol = append(res.Viol, h.Violation{Prop: prop, Clause: "deadlock", Sig: "deadlock:" + frames,
					Detail: "no goroutine runnable in two dumps 2 s apart; library goroutines blocked on a mutex: " + frames})
			}
			res.Fatal = "deadlock"
		} else {
			res.Inconclusive = "stall without provable deadlock: " + frames
		}
		p := filepath.Join(replayDir(), spec.Name+".json")
		b, _ := json.Marshal(replayFile{Spec: spec, Viol: res.Viol, Fatal: "stall\n" + d2})
		os.WriteFile(p, b, 0o644)
		emit(line{K: k, Result: res, Replay: p})
		os.Exit(3)
	}
}

func stallProp(spec *h.Spec) string {
	switch {
	case spec.HasTag("connection"):
		return "C11"
	case spec.HasTag("hostile"):
		return "C13"
	default:
		return "C09"
	}
}

func fullDump() string {
	buf := make([]byte, 4<<20)
	n := runtime.Stack(buf, true)
	return string(buf[:n])
}

// classifyStall: deadlock iff in both dumps no goroutine with library or
// harness frames is running/runnable and at least one goroutine with library
// frames waits on a mutex.
func classifyStall(d1, d2 string) (string, string) {
	mutexLib := map[string]bool{}
	for _, d := range []string{d1, d2} {
		for _, g := range strings.Split(d, "\n\n") {
			// A user callback (harness frames) sleeping on the virtual clock underneath
			// library frames while another goroutine waits for a mutex: a mutex wait is
			// not a durable block, so the bubble's clock cannot advance and the sleep
			// never ends. In real time this resolves itself: not a deadlock.
			if strings.Contains(g, "time.Sleep") && strings.Contains(g, "verifharness/h.(*Runner).build.func") && strings.Contains(g, "NATS-Leader-Election/leader.") {
				return "artifact", "callback sleeping on the virtual clock while a library lock is wanted (synctest limitation)"
			}
			// A user-code call held by the harness underneath library frames while virtual time
			// is wanted elsewhere: same limitation (the release is scheduled on the virtual clock).
			if strings.Contains(g, "verifharness/h.(*Client).atPhase") && strings.Contains(g, "NATS-Leader-Election/leader.") {
				return "artifact", "user-code call held by the harness inside the library while the virtual clock is frozen (synctest limitation)"
			}
			hdr := g
			if i := strings.IndexByte(g, '\n'); i >= 0 {
				hdr = g[:i]
			}
			inBubble := strings.Contains(g, "NATS-Leader-Election/leader.") || strings.Contains(g, "verifharness/h.")
			if !inBubble || strings.Contains(g, "sim.watchdog") {
				continue
			}
			if strings.Contains(hdr, "[running") || strings.Contains(hdr, "[runnable") {
				return "running", hdr
			}
			if strings.Contains(hdr, "sync.Mutex.Lock") || strings.Contains(hdr, "sync.RWMutex") {
				lib, _ := h.CensusOf(g)
				for _, l := range lib {
					mutexLib[l] = true
				}
			}
		}
	}
	if len(mutexLib) == 0 {
		// A library function of this run's bubble blocked in a channel operation that is NOT
		// durable: the channel was not made inside the bubble, i.e. it does not belong to this
		// election run at all - it is state shared by every election of the process (a
		// package-level semaphore, queue, ...), here held by what earlier scenarios left behind
		// (store calls that never return). Nothing of this run can release it.
		if fs := globalWaiters(d1, d2); len(fs) > 0 {
			return "process-global-wait", strings.Join(fs, ",")
		}
		return "stall", "no library goroutine on a mutex"
	}
	// A store call in flight underneath library frames (the reference store sleeps its
	// latency on the virtual clock) while another library goroutine waits for a mutex: the
	// library holds that lock across the store call. In the bubble the clock then cannot
	// advance; in real time every caller that needs the lock - Stop among them - waits as long
	// as the store takes to answer. Not a deadlock, but no better for C09: named as what it is.
	for _, g := range strings.Split(d2, "\n\n") {
		if strings.Contains(g, "verifharness/h.(*Client).do") && strings.Contains(g, "verifharness/h.(*Store).sleep") && strings.Contains(g, "NATS-Leader-Election/leader.") {
			var fs []string
			for l := range mutexLib {
				if i := strings.Index(l, "["); i >= 0 {
					l = l[:i]
				}
				fs = append(fs, l)
			}
			sortStrings(fs)
			return "lock-across-store-call", strings.Join(dedup(fs), ",")
		}
	}
	var fs []string
	for l := range mutexLib {
		if i := strings.Index(l, "["); i >= 0 {
			l = l[:i]
		}
		fs = append(fs, l)
	}
	sortStrings(fs)
	return "deadlock", strings.Join(dedup(fs), ",")
}

// globalWaiters: library functions that are, in both dumps, the innermost non-runtime frame of
// a bubble goroutine blocked on a non-durable channel operation.
func globalWaiters(d1, d2 string) []string {
	find := func(d string) map[string]bool {
		out := map[string]bool{}
		for _, g := range strings.Split(d, "\n\n") {
			lines := strings.Split(g, "\n")
			hdr := lines[0]
			if !strings.Contains(hdr, "synctest bubble") || strings.Contains(hdr, "(durable)") {
				continue
			}
			if !strings.Contains(hdr, "[chan send") && !strings.Contains(hdr, "[chan receive") && !strings.Contains(hdr, "[select") {
				continue
			}
			// innermost non-runtime frame must be a library function; the signature names the
			// library functions of the stack, innermost first
			var chain []string
			innermost := true
			for _, ln := range lines[1:] {
				if strings.HasPrefix(ln, "\t") || strings.HasPrefix(ln, "created by") {
					continue
				}
				if strings.HasPrefix(ln, "runtime.") || strings.HasPrefix(ln, "internal/") {
					continue
				}
				i := strings.Index(ln, "NATS-Leader-Election/leader.")
				if i < 0 {
					if innermost {
						break
					}
					continue
				}
				innermost = false
				f := ln[i+len("NATS-Leader-Election/leader."):]
				if j := strings.LastIndex(f, "("); j > 0 {
					f = f[:j]
				}
				if len(chain) < 6 && (len(chain) == 0 || chain[len(chain)-1] != f) {
					chain = append(chain, f)
				}
			}
			if len(chain) > 0 {
				out[strings.Join(chain, "<")] = true
			}
		}
		return out
	}
	a, b := find(d1), find(d2)
	var fs []string
	for f := range a {
		if b[f] {
			fs = append(fs, f)
		}
	}
	sortStrings(fs)
	return fs
}

func sortStrings(a []string) {
	for i := range a {
		for j := i + 1; j < len(a); j++ {
			if a[j] < a[i] {
				a[i], a[j] = a[j], a[i]
			}
		}
	}
}

func dedup(a []string) []string {
	var o []string
	for i, x := range a {
		if i == 0 || x != a[i-1] {
			o = append(o, x)
		}
	}
	return o
}

func TestBatch(t *testing.T) {
	outPath := os.Getenv("VERIF_OUT")
	if outPath == "" {
		t.Skip("VERIF_OUT not set")
	}
	debug.SetMaxStack(64 << 20)
	var err error
	out, err = os.OpenFile(outPath, os.O_CREATE|os.O_WRONLY|os.O_APPEND, 0o644)
	if err != nil {
		t.Fatal(err)
	}
	defer out.Close()
	go watchdog()

	var specs []*h.Spec
	var ks []int
	if p := os.Getenv("VERIF_SPEC"); p != "" {
		b, err := os.ReadFile(p)
		if err != nil {
			t.Fatal(err)
		}
		var rf replayFile
		if err := json.Unmarshal(b, &rf); err != nil || rf.Spec == nil {
			t.Fatal("bad replay file", err)
		}
		n := envInt("VERIF_REPEAT", 20)
		for i := 0; i < n; i++ {
			specs = append(specs, rf.Spec)
			ks = append(ks, i)
		}
	} else {
		class := os.Getenv("VERIF_CLASS")
		seed := uint64(envInt("VERIF_SEED", 1))
		from, to := envInt("VERIF_FROM", 0), envInt("VERIF_TO", 1)
		for k := from; k < to; k++ {
			specs = append(specs, h.Gen(class, seed, k))
			ks = append(ks, k)
		}
	}
	dumpAll := os.Getenv("VERIF_DUMP_ALL") != ""
	for i, spec := range specs {
		k := ks[i]
		emit(line{Begin: spec.Name, K: k})
		current.Lock()
		current.spec, current.k, current.busy = spec, k, true
		current.startProgress = h.Progress.Load()
		current.Unlock()
		first := i == 0
		h.RunSpec(t, spec, func(ev []h.Event) {
			current.Lock()
			current.busy = false
			current.Unlock()
			res := h.Check(spec, ev)
			rp := ""
			if len(res.Viol) > 0 || dumpAll {
				rp = writeReplay(spec, res, ev, "")
				if dumpAll && rp == "" {
					p := filepath.Join(replayDir(), spec.Name+".json")
					b, _ := json.Marshal(replayFile{Spec: spec, Trace: ev})
					os.WriteFile(p, b, 0o644)
					rp = p
				}
			}
			l := line{K: k, Result: res, Replay: rp}
			if first {
				l.Spec = spec
			}
			emit(l)
		})
	}
	fmt.Fprintf(os.Stderr, "batch done: %d scenarios\n", len(specs))
}

// TestPrintSpec prints the spec of case VERIF_K (used by the driver to keep the
// spec of a case whose child died).
func TestPrintSpec(t *testing.T) {
	if os.Getenv("VERIF_K") == "" {
		t.Skip()
	}
	spec := h.Gen(os.Getenv("VERIF_CLASS"), uint64(envInt("VERIF_SEED", 1)), envInt("VERIF_K", 0))
	b, _ := json.Marshal(spec)
	fmt.Printf("SPEC:%s\n", b)
}

// TestRecheck runs the oracles again over the recorded trace of a replay file (VERIF_SPEC),
// without executing anything: used to confirm a correction of an oracle on the very history
// that raised the alarm.
func TestRecheck(t *testing.T) {
	p := os.Getenv("VERIF_SPEC")
	if p == "" || os.Getenv("VERIF_RECHECK") == "" {
		t.Skip("no VERIF_SPEC / VERIF_RECHECK")
	}
	b, err := os.ReadFile(p)
	if err != nil {
		t.Fatal(err)
	}
	var rf replayFile
	if err := json.Unmarshal(b, &rf); err != nil || rf.Spec == nil || len(rf.Trace) == 0 {
		t.Fatal("replay file without a trace", err)
	}
	res := h.Check(rf.Spec, rf.Trace)
	for _, v := range res.Viol {
		fmt.Printf("RECHECK %s %s %s\n", v.Prop, v.Sig, v.Detail)
	}
	fmt.Printf("RECHECK done: %d violation(s) over %d events\n", len(res.Viol), len(rf.Trace))
}
