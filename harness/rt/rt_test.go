// Engine RT: the real library in real time (no synctest bubble), built with
// -race, with hammer goroutines on every public method. The deciding oracle for
// C20 is the race detector's report log (parsed by the driver); the pollers here
// additionally check the snapshot-internal clauses of C18.
package rt

import (
	"context"
	"encoding/json"
	"fmt"
	"hash/fnv"
	"math/rand/v2"
	"os"
	"strconv"
	"sync"
	"sync/atomic"
	"testing"
	"time"

	leader "github.com/ali-assar/NATS-Leader-Election/leader"
	"github.com/nats-io/nats.go"

	"verifharness/h"
)

type line struct {
	Begin  string    `json:"begin,omitempty"`
	K      int       `json:"k"`
	Result *h.Result `json:"result,omitempty"`
}

var out *os.File

func emit(l line) {
	b, _ := json.Marshal(l)
	out.Write(append(b, '\n'))
}

func envInt(k string, d int) int {
	if v := os.Getenv(k); v != "" {
		if n, err := strconv.Atoi(v); err == nil {
			return n
		}
	}
	return d
}

const ms = time.Millisecond

// siteSignal carries the names of the in-library yield sites as they are reached
// (only with the verif tag and the gofail rewrite; otherwise nothing is ever sent).
var siteSignal = make(chan string, 64)

func genSpec(r *rand.Rand, name string) *h.Spec {
	hb := []time.Duration{20 * ms, 30 * ms, 50 * ms}[r.IntN(3)]
	n := 2 + r.IntN(3)
	s := &h.Spec{Name: name, Class: "rt", TTL: time.Duration(3+r.IntN(3)) * hb, Hang: 300 * ms}
	takeover := r.IntN(2) == 0
	for i := 0; i < n; i++ {
		is := h.InstSpec{Name: fmt.Sprintf("i%d", i), Group: "g0", H: hb, ValInterval: []time.Duration{0, hb, 2 * hb}[r.IntN(3)]}
		is.Conn = r.IntN(2) == 0
		if is.Conn {
			// (0 = the 5 s default would never run out within a scenario)
			is.Grace = []time.Duration{2 * hb, 3 * hb, 3 * hb, 0}[r.IntN(4)]
		}
		if r.IntN(3) == 0 {
			is.HealthOn, is.MaxFail = true, 1+r.IntN(3)
			b := make([]byte, 200)
			for j := range b {
				b[j] = "hhhhu"[r.IntN(5)]
			}
			is.Health = string(b)
		}
		if takeover {
			is.Priority, is.Takeover = 1+r.IntN(3), r.IntN(2) == 0
		}
		is.BlockPromote = r.IntN(2) == 0
		s.Insts = append(s.Insts, is)
	}
	s.Lat = h.Latency{Min: 0, Max: time.Duration(r.IntN(5)) * ms}
	s.Watch = h.WatchPolicy{DelayMax: time.Duration(r.IntN(5)) * ms, DupP: 0.1}
	if r.IntN(2) == 0 {
		// slow store windows: calls that take longer than a stop call is prepared to wait,
		// so that background goroutines of one run are still in flight when the next begins
		for w, n := 0, 2+r.IntN(4); w < n; w++ {
			at := time.Duration(100+r.IntN(1200)) * ms
			s.Rules = append(s.Rules, h.FaultRule{Client: "*", Op: []string{"", "Get", "Update", "Create", "Watch"}[r.IntN(5)], From: at, To: at + time.Duration(100+r.IntN(200))*ms,
				Kind: []string{"hang", "hang", "acklost", "err"}[r.IntN(4)], Err: "timeout", Hang: time.Duration(100+r.IntN(400)) * ms})
		}
	}
	return s
}

type counters struct {
	calls map[string]*atomic.Int64
}

func (c *counters) inc(k string) { c.calls[k].Add(1) }

var apiNames = []string{"site.graceExpiredAfterUnlock", "site.reconnectEntry", "IsLeader", "LeaderID", "Token", "Status", "Status.leading", "ValidateToken", "ValidateTokenOrDemote", "OnPromote", "OnDemote", "Start", "Stop", "StopWithContext", "conn.D", "conn.R", "conn.C", "conn.D.late", "conn.R.late", "conn.C.late", "outside"}

func TestBatch(t *testing.T) {
	outPath := os.Getenv("VERIF_OUT")
	if outPath == "" {
		t.Skip("VERIF_OUT not set")
	}
	var err error
	out, err = os.OpenFile(outPath, os.O_CREATE|os.O_WRONLY|os.O_APPEND, 0o644)
	if err != nil {
		t.Fatal(err)
	}
	defer out.Close()
	class := os.Getenv("VERIF_CLASS")
	seed := uint64(envInt("VERIF_SEED", 1))
	from, to := envInt("VERIF_FROM", 0), envInt("VERIF_TO", 1)
	for k := from; k < to; k++ {
		hh := fnv.New64a()
		hh.Write([]byte(class))
		r := rand.New(rand.NewPCG(seed*0x9E3779B97F4A7C15+uint64(k), hh.Sum64()))
		name := fmt.Sprintf("%s-%d-%d", class, seed, k)
		res := &h.Result{Name: name, Class: class, Seed: seed, Obs: map[string]int{}, FP: map[string]string{}}
		emit(line{Begin: name, K: k})
		runScenario(t, r, res)
		emit(line{K: k, Result: res})
	}
}

func runScenario(t *testing.T, r *rand.Rand, res *h.Result) {
	spec := genSpec(r, res.Name)
	// every fourth scenario concentrates on the grace period: one instance with connection
	// monitoring and a short grace period, no lifecycle calls, no outside party, no store
	// faults - so that it leads most of the time and disconnects actually run into their expiry
	focus := r.IntN(4) == 0
	if focus {
		spec.Insts = spec.Insts[:1]
		spec.Insts[0].Conn = true
		spec.Insts[0].Grace = 2 * spec.Insts[0].H
		spec.Insts[0].HealthOn = false
		spec.Rules = nil
		res.Obs["c20.scenarios_grace_focus"]++
	}
	// every other scenario is "calm": no outside party and rare lifecycle calls, so that
	// terms live long enough for grace periods to run out, verifications to complete, etc.
	calm := r.IntN(2) == 0 || focus
	if calm {
		res.Obs["c20.scenarios_calm"]++
	}
	if len(spec.Rules) > 0 {
		res.Obs["c20.scenarios_slow_store"]++
	}
	x, err := h.NewRT(spec)
	if err != nil {
		res.Inconclusive = "build: " + err.Error()
		return
	}
	cnt := &counters{calls: map[string]*atomic.Int64{}}
	for _, n := range apiNames {
		cnt.calls[n] = new(atomic.Int64)
	}
	var vmu sync.Mutex
	viol := func(prop, clause, sig, detail string) {
		vmu.Lock()
		defer vmu.Unlock()
		for _, v := range res.Viol {
			if v.Prop == prop && v.Sig == sig {
				return
			}
		}
		res.Viol = append(res.Viol, h.Violation{Prop: prop, Clause: clause, Sig: sig, Detail: detail})
	}
	docStates := map[string]bool{"INIT": true, "CANDIDATE": true, "LEADER": true, "FOLLOWER": true, "DEMOTED": true, "STOPPED": true}
	stop := make(chan struct{})
	var wg sync.WaitGroup
	dur := time.Duration(envInt("VERIF_RT_MS", 1500)) * ms
	// lifecycle lock: handler capture (exclusive, brief) vs. Start/Stop (shared): gives the
	// harness's reads of the handler fields a happens-before edge with the library's writes
	// without serialising Start/Stop against notifications in flight
	var life sync.RWMutex
	seeds := func() uint64 { return r.Uint64() }
	for _, name := range x.Insts() {
		name := name
		el := x.Election(name)
		// (1) readers / pollers
		for p := 0; p < 2; p++ {
			wg.Add(1)
			go func() {
				defer wg.Done()
				// what this poller has learnt from its own sequence of snapshots: the token it last
				// saw in a leading snapshot, and the tokens of terms it knows to be over (it saw a
				// non-leading snapshot, or another token, afterwards). Tokens are unique per term:
				// a leading snapshot never shows the token of a term that is over.
				lastLead := ""
				over := map[string]bool{}
				for {
					select {
					case <-stop:
						return
					default:
					}
					_ = el.IsLeader()
					cnt.inc("IsLeader")
					_ = el.LeaderID()
					cnt.inc("LeaderID")
					_ = el.Token()
					cnt.inc("Token")
					st := el.Status()
					cnt.inc("Status")
					if st.IsLeader != (st.State == "LEADER") {
						viol("C18", "poller-snapshot", fmt.Sprintf("poller:isleader=%v:state=%s", st.IsLeader, st.State), fmt.Sprintf("%s Status() under load: IsLeader=%v State=%s", name, st.IsLeader, st.State))
					}
					if !docStates[st.State] {
						viol("C18", "poller-state", "poller:undocumented-state", name+" state "+st.State)
					}
					if st.IsLeader && st.LeaderID != name {
						viol("C18", "poller-leaderid", "poller:leader-snapshot-leaderid", fmt.Sprintf("%s leader snapshot LeaderID=%q", name, st.LeaderID))
					}
					if st.IsLeader {
						if st.Token == "" {
							viol("C05", "poller-token", "poller:leading-snapshot-without-token", fmt.Sprintf("%s Status() under load: IsLeader=true Token=\"\"", name))
							viol("C18", "poller-token", "poller:leading-snapshot-without-token", fmt.Sprintf("%s Status() under load: IsLeader=true Token=\"\"", name))
						} else if over[st.Token] {
							viol("C05", "poller-token", "poller:leading-snapshot-with-token-of-ended-term", fmt.Sprintf("%s Status() under load: IsLeader=true with token %s, which this poller had already seen superseded", name, st.Token))
							viol("C18", "poller-token", "poller:leading-snapshot-with-token-of-ended-term", fmt.Sprintf("%s Status() under load: IsLeader=true with token %s, which this poller had already seen superseded", name, st.Token))
						}
						if lastLead != "" && lastLead != st.Token {
							over[lastLead] = true
						}
						lastLead = st.Token
						cnt.inc("Status.leading")
					} else if lastLead != "" {
						over[lastLead] = true
					}
					time.Sleep(50 * time.Microsecond)
				}
			}()
		}
		// (2) validators
		rs := rand.New(rand.NewPCG(seeds(), 1))
		wg.Add(1)
		go func() {
			defer wg.Done()
			for {
				select {
				case <-stop:
					return
				default:
				}
				// deadlines around the store's latency: some validations give up while their read
				// is still in flight, and the answer arrives afterwards
				ctx, cancel := context.WithTimeout(context.Background(), []time.Duration{500 * time.Microsecond, 2 * ms, 5 * ms, 20 * ms}[rs.IntN(4)])
				if rs.IntN(4) == 0 {
					el.ValidateTokenOrDemote(ctx)
					cnt.inc("ValidateTokenOrDemote")
				} else {
					el.ValidateToken(ctx)
					cnt.inc("ValidateToken")
				}
				cancel()
				time.Sleep(time.Duration(rs.IntN(3000)) * time.Microsecond)
			}
		}()
		// (3) callback re-registration
		wg.Add(1)
		go func() {
			defer wg.Done()
			for {
				select {
				case <-stop:
					return
				default:
				}
				el.OnPromote(func(ctx context.Context, token string) {})
				cnt.inc("OnPromote")
				el.OnDemote(func() {})
				cnt.inc("OnDemote")
				time.Sleep(500 * time.Microsecond)
			}
		}()
		// (4) lifecycle from two goroutines
		for p := 0; p < 2; p++ {
			rl := rand.New(rand.NewPCG(seeds(), 2))
			wg.Add(1)
			go func() {
				defer wg.Done()
				for {
					select {
					case <-stop:
						return
					default:
					}
					if focus {
						time.Sleep(50 * ms) // no lifecycle calls in these scenarios
						continue
					}
					if calm {
						time.Sleep(time.Duration(300+rl.IntN(500)) * ms)
					} else {
						time.Sleep(time.Duration(20+rl.IntN(150)) * ms)
					}
					select {
					case <-stop:
						return
					default:
					}
					life.RLock()
					switch rl.IntN(4) {
					case 0:
						el.Stop()
						cnt.inc("Stop")
					case 1:
						ctx, cancel := context.WithTimeout(context.Background(), 200*ms)
						el.StopWithContext(ctx, leader.StopOptions{DeleteKey: rl.IntN(2) == 0, WaitForDemote: rl.IntN(2) == 0, Timeout: time.Duration(rl.IntN(200)) * ms})
						cancel()
						cnt.inc("StopWithContext")
					default:
						el.Start(context.Background())
						cnt.inc("Start")
					}
					life.RUnlock()
				}
			}()
		}
		// (5) connection notifications from a foreign goroutine (one dispatcher per connection,
		// as the real client has)
		if conn := x.Conn(name); conn != nil {
			rc := rand.New(rand.NewPCG(seeds(), 3))
			grace := x.InstSpec(name).Grace
			wg.Add(1)
			go func() {
				defer wg.Done()
				for {
					select {
					case <-stop:
						return
					default:
					}
					life.Lock()
					d, rcb, c := conn.Opts.DisconnectedCB, conn.Opts.ReconnectedCB, conn.Opts.ClosedCB
					life.Unlock()
					var f nats.ConnHandler
					which := ""
					pick := rc.IntN(5)
					if focus && pick >= 4 {
						pick = 0 // (no "closed" notifications here; mostly disconnects that run out)
					}
					switch pick {
					case 0, 1:
						f, which = d, "conn.D"
					case 2, 3:
						f, which = rcb, "conn.R"
					default:
						f, which = c, "conn.C"
					}
					if f != nil {
						// (the real client queues its callbacks: a notification can be delivered
						// late - after the election it was meant for has been stopped, or even
						// started again)
						if !focus && rc.IntN(3) == 0 {
							select {
							case <-time.After(time.Duration(rc.IntN(150)) * ms):
							case <-stop:
								return
							}
							cnt.inc(which + ".late")
						}
						f(conn)
						cnt.inc(which)
					}
					// let the grace period run out now and then (otherwise the next notification
					// always comes first and the expiry path is never executed)
					if which == "conn.D" && grace > 0 && (calm || rc.IntN(2) == 0) {
						tm := time.After(grace + time.Duration(rc.IntN(20))*ms)
					wait:
						for {
							select {
							case <-tm:
								break wait
							case site := <-siteSignal:
								if site == "graceExpiredAfterUnlock" {
									life.Lock()
									d2 := conn.Opts.DisconnectedCB
									life.Unlock()
									if d2 != nil {
										d2(conn)
										cnt.inc("conn.D")
										cnt.inc("site." + site)
									}
								}
							case <-stop:
								return
							}
						}
					}
					// wait for the next notification time - or fire at once when the library
					// has just reached one of the connection-handler windows (a disconnect that
					// arrives exactly as the grace period expires, a reconnect during a reconnect)
					select {
					case site := <-siteSignal:
						if site == "graceExpiredAfterUnlock" || site == "reconnectEntry" {
							life.Lock()
							d2 := conn.Opts.DisconnectedCB
							life.Unlock()
							if d2 != nil {
								d2(conn)
								cnt.inc("conn.D")
								cnt.inc("site." + site)
							}
						}
					case <-time.After(time.Duration(rc.IntN(40)) * ms):
					case <-stop:
						return
					}
				}
			}()
		}
	}
	// outside party
	ro := rand.New(rand.NewPCG(seeds(), 4))
	wg.Add(1)
	go func() {
		defer wg.Done()
		for {
			select {
			case <-stop:
				return
			case <-time.After(time.Duration(50+ro.IntN(200)) * ms):
			}
			if calm {
				continue
			}
			switch ro.IntN(3) {
			case 0:
				x.Store().OutsideDelete("g0")
			case 1:
				x.Store().OutsideExpire("g0")
			default:
				x.Store().OutsidePut("g0", []byte(`{"id":"intruder","token":"t"}`))
			}
			cnt.inc("outside")
		}
	}()
	for _, name := range x.Insts() {
		life.RLock()
		x.Election(name).Start(context.Background())
		life.RUnlock()
		cnt.inc("Start")
	}
	time.Sleep(dur)
	close(stop)
	wg.Wait()
	for _, name := range x.Insts() {
		x.Election(name).Stop()
	}
	time.Sleep(400 * ms)
	x.Close()
	for k, c := range cnt.calls {
		res.Obs["c20.calls."+k] += int(c.Load())
	}
	ev := x.Events()
	res.Events = len(ev)
	res.Obs["c20.scenarios"]++
	res.Obs["c20.events"] += len(ev)
	terms := 0
	for _, e := range ev {
		if e.Kind == "flag" && e.Flag {
			terms++
		}
	}
	res.Obs["c20.terms"] += terms
	for _, e := range ev {
		if e.Kind == "log" && e.Msg == "demoting_due_to_connection_loss" {
			res.Obs["c20.grace_expiries"]++
		}
		if e.Kind == "log" && (e.Msg == "reconnect_verification_success" || e.Msg == "reconnect_verification_failed") {
			res.Obs["c20.verifications"]++
		}
	}
	res.FP["all"] = fmt.Sprintf("%s:%d:%d", spec.Name, len(spec.Insts), terms)
	res.Sample = []string{fmt.Sprintf("instances=%d H=%v TTL=%v terms=%d events=%d", len(spec.Insts), spec.Insts[0].H, spec.TTL, terms, len(ev))}
}
