//go:build verif

package rt

import (
	"math/rand/v2"
	"strings"
	"time"

	leader "github.com/ali-assar/NATS-Leader-Election/leader"
	gofail "go.etcd.io/gofail/runtime"
)

// In the real-time engine the in-library yield sites widen race windows with real
// (sub-millisecond) sleeps: the race detector needs the two accesses to be unordered,
// which for several windows only happens when another goroutine gets in between.
func init() {
	leader.VerifYield = func(site string) {
		// tell the notification dispatchers which window the library is in right now
		select {
		case siteSignal <- site:
		default:
		}
		switch rand.IntN(4) {
		case 0:
			time.Sleep(time.Duration(rand.IntN(400)) * time.Microsecond)
		case 1:
			time.Sleep(time.Duration(rand.IntN(3)) * time.Millisecond)
		}
	}
	for _, fp := range gofail.List() {
		if strings.Contains(fp, "verif") {
			_ = gofail.Enable(fp, "return")
		}
	}
}
