// Engine NATS: the library's real adapter against an embedded nats-server
// (the repo's own StartEmbeddedNATSServer), real wall-clock time. No timing
// verdicts: only orders, values, error identities and goroutine counts.
package natseng

import (
	"bytes"
	"context"
	"encoding/json"
	"errors"
	"fmt"
	"hash/fnv"
	"math/rand/v2"
	"os"
	"runtime"
	"strconv"
	"strings"
	"sync"
	"testing"
	"time"

	leader "github.com/ali-assar/NATS-Leader-Election/leader"
	"github.com/anishathalye/porcupine"
	"github.com/nats-io/nats.go"

	"verifharness/h"
)

type line struct {
	Begin  string    `json:"begin,omitempty"`
	K      int       `json:"k"`
	Result *h.Result `json:"result,omitempty"`
	Replay string    `json:"replay,omitempty"`
}

var (
	out   *os.File
	outMu sync.Mutex
)

func emit(l line) {
	b, _ := json.Marshal(l)
	outMu.Lock()
	out.Write(append(b, '\n'))
	outMu.Unlock()
}

func envInt(k string, d int) int {
	if v := os.Getenv(k); v != "" {
		if n, err := strconv.Atoi(v); err == nil {
			return n
		}
	}
	return d
}

func newRng(seed uint64, class string, k int) *rand.Rand {
	hh := fnv.New64a()
	hh.Write([]byte(class))
	return rand.New(rand.NewPCG(seed*0x9E3779B97F4A7C15+uint64(k), hh.Sum64()))
}

type result struct {
	*h.Result
	mu sync.Mutex
}

func (r *result) viol(prop, clause, sig, detail string) {
	r.mu.Lock()
	defer r.mu.Unlock()
	for _, v := range r.Viol {
		if v.Prop == prop && v.Sig == sig {
			return
		}
	}
	r.Viol = append(r.Viol, h.Violation{Prop: prop, Clause: clause, Sig: sig, Detail: detail})
}

func (r *result) obs(k string, n int) {
	r.mu.Lock()
	r.Obs[k] += n
	r.mu.Unlock()
}

func writeReplay(res *h.Result, class string, seed uint64, k int) string {
	if len(res.Viol) == 0 {
		return ""
	}
	d := os.Getenv("VERIF_REPLAY_DIR")
	if d == "" {
		d = "/verif/replays"
	}
	os.MkdirAll(d, 0o755)
	p := d + "/" + res.Name + ".json"
	b, _ := json.Marshal(map[string]any{"engine": "natseng", "class": class, "seed": seed, "k": k, "tier": os.Getenv("VERIF_TIER"), "violations": res.Viol, "cases": res.Samples})
	os.WriteFile(p, b, 0o644)
	return p
}

const expiryTTL = 1 * time.Second

type env struct {
	nc *nats.Conn
	js nats.JetStreamContext
}

func startServer(t *testing.T) (*env, func()) {
	ctx, cancel := context.WithCancel(context.Background())
	s, err := leader.StartEmbeddedNATSServer(ctx)
	if err != nil {
		cancel()
		t.Fatalf("embedded server: %v", err)
	}
	nc, err := nats.Connect(s.ClientURL())
	if err != nil {
		cancel()
		t.Fatalf("connect: %v", err)
	}
	js, err := nc.JetStream()
	if err != nil {
		t.Fatalf("jetstream: %v", err)
	}
	return &env{nc: nc, js: js}, func() {
		nc.Close()
		leader.StopEmbeddedNATSServer(s)
		cancel()
	}
}

func (e *env) bucket(t *testing.T, name string, ttl time.Duration) leader.KeyValue {
	return e.bucketH(t, name, ttl, 1)
}

func (e *env) bucketH(t *testing.T, name string, ttl time.Duration, history uint8) leader.KeyValue {
	_, err := e.js.CreateKeyValue(&nats.KeyValueConfig{Bucket: name, TTL: ttl, Storage: nats.MemoryStorage, History: history})
	if err != nil {
		t.Fatalf("create bucket %s: %v", name, err)
	}
	kv, err := leader.VerifNewKeyValue(e.nc, name)
	if err != nil {
		t.Fatalf("adapter for %s: %v", name, err)
	}
	return kv
}

func TestBatch(t *testing.T) {
	outPath := os.Getenv("VERIF_OUT")
	if outPath == "" {
		t.Skip("VERIF_OUT not set")
	}
	var err error
	out, err = os.OpenFile(outPath, os.O_CREATE|os.O_WRONLY|os.O_APPEND, 0o644)
	if err != nil {
		t.Fatal(err)
	}
	defer out.Close()
	class := os.Getenv("VERIF_CLASS")
	seed := uint64(envInt("VERIF_SEED", 1))
	from, to := envInt("VERIF_FROM", 0), envInt("VERIF_TO", 1)
	e, stop := startServer(t)
	defer stop()
	for k := from; k < to; k++ {
		res := &result{Result: &h.Result{Name: fmt.Sprintf("%s-%d-%d", class, seed, k), Class: class, Seed: seed, Obs: map[string]int{}, FP: map[string]string{}}}
		emit(line{Begin: res.Name, K: k})
		r := newRng(seed, class, k)
		switch class {
		case "c14diff":
			batchDiff(t, e, res, r, k)
		case "c14lin":
			batchLin(t, e, res, r, k)
		case "c14watch":
			batchWatch(t, e, res, r, k)
		case "c15captured":
			batchCaptured(t, e, res, k)
		default:
			t.Fatalf("unknown class %q", class)
		}
		emit(line{K: k, Result: res.Result, Replay: writeReplay(res.Result, class, seed, k)})
	}
}

// ---------------------------------------------------------------------------
// C14 (1): differential, adapter on the real server vs. the reference model
// ---------------------------------------------------------------------------

type dop struct {
	Op   string `json:"op"`
	Key  string `json:"key,omitempty"`
	Val  string `json:"val,omitempty"`
	Rev  string `json:"rev,omitempty"` // fresh | latest | stale | zero (how the revision was chosen)
	RevN uint64 `json:"rev_n,omitempty"`
}

func genValue(r *rand.Rand) []byte {
	switch r.IntN(6) {
	case 0:
		return []byte{}
	case 1:
		b := make([]byte, 1+r.IntN(32))
		for i := range b {
			b[i] = byte(r.IntN(256))
		}
		return b
	case 2:
		return bytes.Repeat([]byte("L"), 64*1024)
	default:
		return []byte(fmt.Sprintf(`{"id":"i%d","token":"t%d"}`, r.IntN(3), r.IntN(1000)))
	}
}

func errClass(err error) string {
	if err == nil {
		return "ok"
	}
	var parts []string
	if errors.Is(err, nats.ErrKeyExists) {
		parts = append(parts, "KeyExists")
	}
	if errors.Is(err, nats.ErrKeyNotFound) {
		parts = append(parts, "KeyNotFound")
	}
	var ae *nats.APIError
	if errors.As(err, &ae) {
		parts = append(parts, fmt.Sprintf("API%d", ae.ErrorCode))
	}
	return "err[" + strings.Join(parts, ",") + "]:" + err.Error()
}

func batchDiff(t *testing.T, e *env, res *result, r *rand.Rand, k int) {
	nWords := envInt("VERIF_BATCH", 12)
	type word struct {
		ops    []dop
		expiry bool
		seed   uint64
	}
	var words []word
	for w := 0; w < nWords; w++ {
		words = append(words, word{expiry: w%3 == 0, seed: r.Uint64()})
	}
	var wg sync.WaitGroup
	distinct := map[string]bool{}
	var dmu sync.Mutex
	for wi := range words {
		wg.Add(1)
		go func(wi int) {
			defer wg.Done()
			w := &words[wi]
			rr := rand.New(rand.NewPCG(w.seed, 7))
			ttl := time.Hour
			if w.expiry {
				ttl = expiryTTL
			}
			name := fmt.Sprintf("d%d_%d_%d", res.Seed, k, wi)
			kv := e.bucket(t, name, ttl)
			defer e.js.DeleteKeyValue(name)
			m := h.NewModel(ttl)
			logical := time.Unix(1000, 0)
			// the election passes its TTL as an option of every Create / Update; the bucket, not
			// the write, decides how long a value lives: whatever TTL a write mentions - none, the
			// bucket's, a much shorter or a much longer one - the adapter answers like the model
			var wopts []interface{}
			switch wi % 4 {
			case 1:
				wopts = []interface{}{ttl}
			case 2:
				wopts = []interface{}{time.Millisecond}
			case 3:
				wopts = []interface{}{10 * ttl}
			}
			keys := []string{"a", "b", "c"}[:1+rr.IntN(3)]
			known := map[string][]uint64{} // revisions seen per key
			L := 8 + rr.IntN(14)
			var trace []string
			for i := 0; i < L; i++ {
				key := keys[rr.IntN(len(keys))]
				op := []string{"Create", "Update", "Update", "Get", "Get", "Delete", "Watch", "Create"}[rr.IntN(8)]
				if w.expiry && rr.IntN(6) == 0 {
					op = "Expire"
				}
				d := dop{Op: op, Key: key}
				var desc, got, want string
				switch op {
				case "Create":
					v := genValue(rr)
					rev, err := kv.Create(key, v, wopts...)
					mrev, merr := m.Create(key, v, "x", logical)
					got, want = fmt.Sprintf("%d %s", rev, errClass(err)), fmt.Sprintf("%d %s", mrev, errClass(merr))
					if err == nil {
						known[key] = append(known[key], rev)
					}
					desc = fmt.Sprintf("Create(%s,%dB)", key, len(v))
				case "Update":
					v := genValue(rr)
					var rv uint64
					ks := known[key]
					switch {
					case rr.IntN(5) == 0:
						d.Rev, rv = "zero", 0
					case len(ks) > 0 && rr.IntN(3) > 0:
						d.Rev, rv = "latest", ks[len(ks)-1]
					case len(ks) > 1:
						d.Rev, rv = "stale", ks[rr.IntN(len(ks)-1)]
					default:
						d.Rev, rv = "fresh", uint64(1+rr.IntN(40))
					}
					d.RevN = rv
					rev, err := kv.Update(key, v, rv, wopts...)
					mrev, merr := m.Update(key, v, rv, "x", logical)
					got, want = fmt.Sprintf("%d %s", rev, errClass(err)), fmt.Sprintf("%d %s", mrev, errClass(merr))
					if err == nil {
						known[key] = append(known[key], rev)
					}
					desc = fmt.Sprintf("Update(%s,%dB,rev=%d/%s)", key, len(v), rv, d.Rev)
				case "Get":
					ent, err := kv.Get(key)
					mm, merr := m.Get(key, logical)
					if err == nil && ent != nil {
						got = fmt.Sprintf("%x@%d ok", ent.Value(), ent.Revision())
						known[key] = append(known[key], ent.Revision())
					} else {
						got = errClass(err)
					}
					if merr == nil {
						want = fmt.Sprintf("%x@%d ok", mm.Val, mm.Seq)
					} else {
						want = errClass(merr)
					}
					desc = fmt.Sprintf("Get(%s)", key)
				case "Delete":
					err := kv.Delete(key)
					mrev := m.Delete(key, "x", logical)
					known[key] = append(known[key], mrev)
					got, want = errClass(err), "ok"
					desc = fmt.Sprintf("Delete(%s)", key)
				case "Expire":
					time.Sleep(expiryTTL + 600*time.Millisecond)
					logical = logical.Add(expiryTTL + 600*time.Millisecond)
					desc, got, want = "WaitForExpiry", "-", "-"
					res.obs("c14.expiry_waits", 1)
				case "Watch":
					wt, err := kv.Watch(key)
					if err != nil {
						got = errClass(err)
					} else {
						got = readInitial(wt)
						wt.Stop()
					}
					// model: last unexpired message (tombstone included) then the nil marker
					want = ""
					if x := m.Keys[key]; x != nil && (m.MaxAge == 0 || logical.Before(x.At.Add(m.MaxAge))) {
						want = fmt.Sprintf("%x@%d ", x.Val, x.Seq)
					}
					want += "nil"
					desc = fmt.Sprintf("Watch(%s)", key)
				}
				trace = append(trace, fmt.Sprintf("%s -> %s", desc, trunc(got)))
				res.obs("c14.diff_ops", 1)
				res.obs("c14.diff_op."+op, 1)
				if got != want {
					res.viol("C14", "differential", "adapter-differs-from-model:"+op+":"+sigOf(got, want),
						fmt.Sprintf("bucket %s op %d %s: adapter on nats-server returned %q, reference model says %q; history: %s", name, i, desc, trunc(got), trunc(want), strings.Join(trace, " ; ")))
					break
				}
			}
			dmu.Lock()
			distinct[strings.Join(trace, ";")] = true
			if len(res.Samples) < 2 {
				res.Samples = append(res.Samples, trace)
			}
			dmu.Unlock()
			res.obs("c14.diff_words", 1)
			if w.expiry {
				res.obs("c14.diff_words_expiry", 1)
			}
		}(wi)
	}
	wg.Wait()
	res.Evals = nWords
	res.Distinct = len(distinct)
}

func sigOf(got, want string) string {
	g := strings.Contains(got, "ok") || got == "ok"
	w := strings.Contains(want, "ok") || want == "ok"
	return fmt.Sprintf("got-%s-want-%s", boolS(g), boolS(w))
}

func boolS(b bool) string {
	if b {
		return "ok"
	}
	return "err"
}

func trunc(s string) string {
	if len(s) > 160 {
		return s[:160] + "..."
	}
	return s
}

func readInitial(wt leader.Watcher) string {
	var sb strings.Builder
	for {
		select {
		case ent, ok := <-wt.Updates():
			if !ok {
				sb.WriteString("closed")
				return sb.String()
			}
			if ent == nil {
				sb.WriteString("nil")
				return sb.String()
			}
			fmt.Fprintf(&sb, "%x@%d ", ent.Value(), ent.Revision())
		case <-time.After(3 * time.Second):
			sb.WriteString("timeout")
			return sb.String()
		}
	}
}

// ---------------------------------------------------------------------------
// C14 (2): linearizability of concurrent histories (porcupine)
// ---------------------------------------------------------------------------

type kvIn struct {
	Op  string
	Key string
	Val string
	Rev uint64
}

type kvOut struct {
	OK  bool
	Rev uint64
	Val string
	Unk bool // outcome unknown (error other than the contract's failures)
}

type kvState struct {
	Seq  uint64 // sequence of the key's last message (tombstone included), 0 if none
	Live bool
	Val  string
}

var kvModel = porcupine.Model{
	Partition: func(history []porcupine.Operation) [][]porcupine.Operation {
		m := map[string][]porcupine.Operation{}
		for _, op := range history {
			k := op.Input.(kvIn).Key
			m[k] = append(m[k], op)
		}
		var o [][]porcupine.Operation
		for _, v := range m {
			o = append(o, v)
		}
		return o
	},
	Init: func() any { return kvState{} },
	Step: func(state, input, output any) (bool, any) {
		s, in, out := state.(kvState), input.(kvIn), output.(kvOut)
		switch in.Op {
		case "Get":
			if out.Unk {
				return true, s
			}
			if out.OK {
				return s.Live && out.Val == s.Val && out.Rev == s.Seq, s
			}
			return !s.Live, s
		case "Create":
			if out.Unk {
				// may or may not have taken effect: not generated on loopback; treat as no effect
				return true, s
			}
			if out.OK {
				return !s.Live && out.Rev > s.Seq, kvState{Seq: out.Rev, Live: true, Val: in.Val}
			}
			return s.Live, s
		case "Update":
			if out.Unk {
				return true, s
			}
			if out.OK {
				return in.Rev == s.Seq && out.Rev > s.Seq, kvState{Seq: out.Rev, Live: true, Val: in.Val}
			}
			return in.Rev != s.Seq, s
		case "Delete":
			// the adapter does not return the tombstone's revision: any later sequence
			if !out.OK {
				return true, s
			}
			return true, kvState{Seq: out.Rev, Live: false}
		}
		return false, s
	},
	Equal: func(a, b any) bool {
		x, y := a.(kvState), b.(kvState)
		if !x.Live && !y.Live {
			return x.Seq == y.Seq
		}
		return x == y
	},
	DescribeOperation: func(input, output any) string {
		return fmt.Sprintf("%+v -> %+v", input, output)
	},
}

type clock struct{ t0 time.Time }

func (c clock) now() int64 { return int64(time.Since(c.t0)) }

func batchLin(t *testing.T, e *env, res *result, r *rand.Rand, k int) {
	nHist := envInt("VERIF_BATCH", 6)
	for hi := 0; hi < nHist; hi++ {
		name := fmt.Sprintf("l%d_%d_%d", res.Seed, k, hi)
		target := "adapter"
		var kv leader.KeyValue
		var st *h.Store
		if hi%3 == 2 {
			// the same workload against the reference store used by the SIM engine
			target = "refstore"
			st = h.NewStore(h.NewTrace(), time.Hour, r.Uint64(), h.Latency{}, h.WatchPolicy{})
		} else {
			kv = e.bucket(t, name, time.Hour)
		}
		nCli := 4 + r.IntN(5)
		perCli := 12 + r.IntN(10)
		ck := clock{time.Now()}
		var mu sync.Mutex
		var ops []porcupine.Operation
		var wg sync.WaitGroup
		// Delete does not report the tombstone revision through the adapter; the recorder
		// learns it from a raw read-back only when unambiguous, else leaves it open (Seq
		// comparisons for deleted states use Equal above). To keep the model exact we let
		// each client work on its own pair of keys plus one shared key without deletes.
		for c := 0; c < nCli; c++ {
			seed := r.Uint64()
			wg.Add(1)
			go func(c int) {
				defer wg.Done()
				rr := rand.New(rand.NewPCG(seed, 11))
				var cl leader.KeyValue = kv
				if st != nil {
					cl = st.Client(fmt.Sprintf("c%d", c))
				}
				known := map[string]uint64{}
				for i := 0; i < perCli; i++ {
					key := []string{"shared1", "shared2"}[rr.IntN(2)]
					in := kvIn{Key: key}
					var outp kvOut
					call := ck.now()
					switch rr.IntN(5) {
					case 0:
						in.Op, in.Val = "Create", fmt.Sprintf("c%d-%d", c, i)
						rev, err := cl.Create(key, []byte(in.Val))
						outp = classify(rev, err)
						if err == nil {
							known[key] = rev
						}
					case 1, 2:
						in.Op, in.Val = "Update", fmt.Sprintf("c%d-%d", c, i)
						in.Rev = known[key]
						if rr.IntN(4) == 0 && in.Rev > 0 {
							in.Rev--
						}
						rev, err := cl.Update(key, []byte(in.Val), in.Rev)
						outp = classify(rev, err)
						if err == nil {
							known[key] = rev
						}
					default:
						in.Op = "Get"
						ent, err := cl.Get(key)
						if err == nil && ent != nil {
							outp = kvOut{OK: true, Rev: ent.Revision(), Val: string(ent.Value())}
							known[key] = ent.Revision()
						} else if errors.Is(err, nats.ErrKeyNotFound) {
							outp = kvOut{}
						} else {
							outp = kvOut{Unk: true}
						}
					}
					ret := ck.now()
					mu.Lock()
					ops = append(ops, porcupine.Operation{ClientId: c, Input: in, Call: call, Output: outp, Return: ret})
					mu.Unlock()
				}
			}(c)
		}
		wg.Wait()
		if kv != nil {
			e.js.DeleteKeyValue(name)
		}
		if st != nil {
			st.Close()
		}
		verdict, info := porcupine.CheckOperationsVerbose(kvModel, ops, 60*time.Second)
		res.Evals++
		res.obs("c14.lin_histories", 1)
		res.obs("c14.lin_histories."+target, 1)
		res.obs("c14.lin_ops", len(ops))
		switch verdict {
		case porcupine.Ok:
		case porcupine.Unknown:
			res.Inconclusive = "porcupine timed out"
		default:
			_ = info
			var sample []string
			for i, o := range ops {
				if i < 40 {
					sample = append(sample, fmt.Sprintf("c%d %+v -> %+v [%d,%d]", o.ClientId, o.Input, o.Output, o.Call, o.Return))
				}
			}
			res.viol("C14", "linearizability", "history-not-linearizable:"+target, fmt.Sprintf("history %s (%d ops, %d clients) on %s is not linearizable w.r.t. the KV contract; first ops: %s", name, len(ops), nCli, target, strings.Join(sample, " | ")))
		}
		if len(res.Samples) < 2 && len(ops) > 3 {
			res.Samples = append(res.Samples, map[string]any{"target": target, "clients": nCli, "ops": len(ops), "first": fmt.Sprintf("%+v -> %+v", ops[0].Input, ops[0].Output)})
		}
	}
	res.Distinct = res.Evals
}

func classify(rev uint64, err error) kvOut {
	if err == nil {
		return kvOut{OK: true, Rev: rev}
	}
	var ae *nats.APIError
	if errors.Is(err, nats.ErrKeyExists) || (errors.As(err, &ae) && ae.ErrorCode == nats.JSErrCodeStreamWrongLastSequence) {
		return kvOut{}
	}
	return kvOut{Unk: true}
}

// ---------------------------------------------------------------------------
// C14 (3): watch contract
// ---------------------------------------------------------------------------

func adapterGoroutines() int {
	buf := make([]byte, 4<<20)
	n := runtime.Stack(buf, true)
	c := 0
	for _, g := range strings.Split(string(buf[:n]), "\n\n") {
		if strings.Contains(g, "leader.(*natsWatcherAdapter)") {
			c++
		}
	}
	return c
}

var lifecycles = []string{"stop-at-once", "traffic-then-stop", "updates-unread-then-stop", "read-one-then-stop", "read-all-then-stop", "stop-twice"}

func watchLifecycles(t *testing.T, e *env, res *result, r *rand.Rand, name string) {
	kv := e.bucketH(t, name+"_lc", time.Hour, 64)
	for _, lc := range lifecycles {
		key := "k_" + lc
		g0 := adapterGoroutines()
		wt, err := kv.Watch(key)
		if err != nil {
			t.Fatalf("watch: %v", err)
		}
		var rev uint64
		write := func(n int) {
			for i := 0; i < n; i++ {
				if rev == 0 {
					rev, _ = kv.Create(key, []byte(fmt.Sprintf("v%d", i)))
				} else {
					rev, _ = kv.Update(key, []byte(fmt.Sprintf("v%d", i)), rev)
				}
			}
		}
		switch lc {
		case "traffic-then-stop":
			write(3 + r.IntN(4))
		case "updates-unread-then-stop":
			_ = wt.Updates()
			write(3 + r.IntN(4))
			time.Sleep(20 * time.Millisecond)
		case "read-one-then-stop":
			ch := wt.Updates()
			write(3 + r.IntN(4))
			select {
			case <-ch:
			case <-time.After(2 * time.Second):
			}
			time.Sleep(20 * time.Millisecond)
		case "read-all-then-stop":
			ch := wt.Updates()
			n := 3 + r.IntN(4)
			write(n)
			for got := 0; got < n+1; got++ { // +1: the "nil" marker after the initial state
				select {
				case <-ch:
				case <-time.After(2 * time.Second):
					got = n + 1
				}
			}
		}
		wt.Stop()
		if lc == "stop-twice" {
			wt.Stop()
		}
		// give the adapter's goroutines a moment to wind down
		gEnd := adapterGoroutines()
		for w := 0; w < 40 && gEnd > g0; w++ {
			time.Sleep(10 * time.Millisecond)
			gEnd = adapterGoroutines()
		}
		res.Evals++
		res.obs("c14.watch_lifecycles", 1)
		if gEnd > g0 {
			res.viol("C14", "watch-goroutines", "goroutines-left-after-stop:"+lc, fmt.Sprintf("watch lifecycle %q: adapter goroutines %d before the watch, %d still there 400 ms after Stop()", lc, g0, gEnd))
		}
	}
}

// overlappingWatches: two (three) watches on the same key through the same handle are
// independent: each receives every change, whatever the others do.
func overlappingWatches(t *testing.T, e *env, res *result, r *rand.Rand, name string) {
	kv := e.bucketH(t, name+"_ov", time.Hour, 64)
	key := "leader"
	nW := 2 + r.IntN(2)
	var ws []leader.Watcher
	var chans []<-chan leader.Entry
	for i := 0; i < nW; i++ {
		w, err := kv.Watch(key)
		if err != nil {
			t.Fatalf("watch: %v", err)
		}
		ws = append(ws, w)
		chans = append(chans, w.Updates())
	}
	n := 3 + r.IntN(5)
	var rev uint64
	var want []string
	for i := 0; i < n; i++ {
		v := fmt.Sprintf("v%d", i)
		if rev == 0 {
			rev, _ = kv.Create(key, []byte(v))
		} else {
			rev, _ = kv.Update(key, []byte(v), rev)
		}
		want = append(want, fmt.Sprintf("%s@%d", v, rev))
	}
	stopFirst := r.IntN(2) == 0
	if stopFirst {
		ws[nW-1].Stop() // the last-opened one goes away early; the others must not notice
	}
	for i := 0; i < nW; i++ {
		if stopFirst && i == nW-1 {
			continue
		}
		var got []string
		closed := false
		deadline := time.After(3 * time.Second)
	recv:
		for len(got) < n {
			select {
			case en, ok := <-chans[i]:
				if !ok {
					closed = true
					break recv
				}
				if en == nil {
					continue // end-of-initial-state marker
				}
				got = append(got, fmt.Sprintf("%s@%d", en.Value(), en.Revision()))
			case <-deadline:
				break recv
			}
		}
		res.Evals++
		res.obs("c14.overlapping_watches", 1)
		if closed {
			res.viol("C14", "watch-independent", "overlapping-watch-closed", fmt.Sprintf("watch %d of %d on one key: its channel was closed although it was never stopped (got %v)", i+1, nW, got))
		} else if strings.Join(got, " ") != strings.Join(want, " ") {
			res.viol("C14", "watch-independent", "overlapping-watch-misses-events", fmt.Sprintf("watch %d of %d on one key: got %v want %v", i+1, nW, got, want))
		}
	}
	for i := range ws {
		ws[i].Stop()
	}
}

func batchWatch(t *testing.T, e *env, res *result, r *rand.Rand, k int) {
	nRuns := envInt("VERIF_BATCH", 5)
	for ri := 0; ri < nRuns; ri++ {
		name := fmt.Sprintf("w%d_%d_%d", res.Seed, k, ri)
		// With history 1 (what the repo's CreateKVBucket creates) JetStream itself
		// coalesces changes that follow each other faster than the consumer is served:
		// the older message is removed by the per-subject limit before it is delivered.
		// That is the server's doing, not the adapter's, so the full "every change"
		// clause is judged on buckets that keep history, and on history-1 buckets the
		// received sequence must be an in-order, duplicate-free subsequence ending in
		// the final state (the number of coalesced changes is reported).
		hist := uint8(64)
		if ri%2 == 1 {
			hist = 1
		}
		kv := e.bucketH(t, name, time.Hour, hist)
		key := "leader"
		var want []string
		// initial state: nothing, a value, or a tombstone
		var lastRev uint64
		switch r.IntN(3) {
		case 1:
			rev, _ := kv.Create(key, []byte("init"))
			lastRev = rev
			want = append(want, fmt.Sprintf("%x@%d", "init", rev))
		case 2:
			rev, _ := kv.Create(key, []byte("init"))
			kv.Delete(key)
			lastRev = rev + 1
			want = append(want, fmt.Sprintf("%x@%d", "", rev+1))
		}
		want = append(want, "nil")
		// watches that are stopped early: never read, Updates() never called, or left with
		// unread events - none of them may leave a goroutine of the adapter behind
		if ri%2 == 0 {
			watchLifecycles(t, e, res, r, name)
		} else {
			overlappingWatches(t, e, res, r, name)
		}
		g0 := adapterGoroutines()
		wt, err := kv.Watch(key)
		if err != nil {
			t.Fatalf("watch: %v", err)
		}
		K := 10 + r.IntN(60)
		type w struct {
			del bool
			val string
		}
		var writes []w
		for i := 0; i < K; i++ {
			writes = append(writes, w{del: r.IntN(4) == 0, val: fmt.Sprintf("v%d", i)})
		}
		// expected change sequence, revisions consecutive from lastRev+1 (nothing else writes the bucket)
		rev := lastRev
		for _, x := range writes {
			rev++
			if x.del {
				want = append(want, fmt.Sprintf("%x@%d", "", rev))
			} else {
				want = append(want, fmt.Sprintf("%x@%d", x.val, rev))
			}
		}
		startDelay := time.Duration(r.IntN(20)) * time.Millisecond
		pauses := make([]bool, K)
		for i := range pauses {
			pauses[i] = r.IntN(3) == 0
		}
		done := make(chan struct{})
		var writeErrs []string
		go func(cur uint64) {
			defer close(done)
			time.Sleep(startDelay)
			for i, x := range writes {
				if x.del {
					if err := kv.Delete(key); err != nil {
						writeErrs = append(writeErrs, err.Error())
					}
				} else if _, err := kv.Update(key, []byte(x.val), cur); err != nil {
					writeErrs = append(writeErrs, fmt.Sprintf("Update(rev=%d): %v", cur, err))
				}
				cur++ // the only writer: every write consumes exactly one revision
				if pauses[i] {
					time.Sleep(time.Millisecond)
				}
			}
		}(lastRev)
		// every third full-history run: a consumer that does not read at all while the
		// writer works (a watch loop busy in a slow callback), then drains
		if hist != 1 && ri%3 == 0 {
			<-done
			res.obs("c14.watch_runs_paused_consumer", 1)
		}
		// consumer that calls Updates() before every receive, exactly as watchLoop does
		var got []string
		first := wt.Updates()
		sameChan := true
		calls := 0
		deadline := time.After(15 * time.Second)
	loop:
		for len(got) < len(want) && !(hist == 1 && len(got) > 1 && got[len(got)-1] == want[len(want)-1]) {
			ch := wt.Updates()
			calls++
			if ch != first {
				sameChan = false
			}
			select {
			case ent, ok := <-ch:
				if !ok {
					got = append(got, "closed")
					break loop
				}
				if ent == nil {
					got = append(got, "nil")
				} else {
					got = append(got, fmt.Sprintf("%x@%d", ent.Value(), ent.Revision()))
				}
			case <-time.After(200 * time.Millisecond):
				// like the periodic ticker: go round the select again
			case <-deadline:
				break loop
			}
		}
		<-done
		if len(writeErrs) > 0 {
			res.Inconclusive = "watch workload writer failed: " + writeErrs[0]
		}
		gMid := adapterGoroutines()
		// nothing more may arrive (exactly once)
		extra := ""
		select {
		case ent, ok := <-wt.Updates():
			if ok && ent != nil {
				extra = fmt.Sprintf("%x@%d", ent.Value(), ent.Revision())
			}
		case <-time.After(150 * time.Millisecond):
		}
		wt.Stop()
		time.Sleep(100 * time.Millisecond)
		gEnd := adapterGoroutines()
		e.js.DeleteKeyValue(name)
		res.Evals++
		res.obs("c14.watch_runs", 1)
		res.obs("c14.watch_updates_calls", calls)
		res.obs("c14.watch_events", len(got))
		desc := fmt.Sprintf("bucket %s: %d writes, %d Updates() calls; received %d of %d events", name, K, calls, len(got), len(want))
		if hist == 1 {
			res.obs("c14.watch_runs_history1", 1)
			// subsequence check
			j := 0
			okSub := true
			for _, g := range got {
				for j < len(want) && want[j] != g {
					j++
				}
				if j == len(want) {
					okSub = false
					break
				}
				j++
			}
			final := len(got) > 0 && got[len(got)-1] == want[len(want)-1]
			hasNil := false
			for _, g := range got {
				if g == "nil" {
					hasNil = true
				}
			}
			res.obs("c14.watch_coalesced_history1", len(want)-len(got))
			if !okSub || !final || !hasNil {
				res.viol("C14", "watch-sequence", fmt.Sprintf("watch-history1:subsequence=%v:final=%v:marker=%v", okSub, final, hasNil), fmt.Sprintf("%s; got %v want %v", desc, headTail(got), headTail(want)))
			}
		} else if strings.Join(got, " ") != strings.Join(want, " ") {
			res.viol("C14", "watch-sequence", "watch-sequence-differs:"+seqDiff(got, want), fmt.Sprintf("%s; got %v want %v", desc, headTail(got), headTail(want)))
		}
		if extra != "" {
			res.viol("C14", "watch-exactly-once", "watch-extra-event", desc+"; extra event "+extra)
		}
		if !sameChan {
			res.viol("C14", "watch-stable-channel", "updates-returns-new-channel", desc+": Updates() returned different channels")
		}
		if gMid-g0 > 2 {
			res.viol("C14", "watch-goroutines", "goroutines-grow-with-updates-calls", fmt.Sprintf("%s: adapter goroutines %d before, %d after %d Updates() calls", desc, g0, gMid, calls))
		}
		if gEnd > g0 {
			res.viol("C14", "watch-goroutines", "goroutines-left-after-stop", fmt.Sprintf("%s: adapter goroutines %d before the watch, %d after Stop()", desc, g0, gEnd))
		}
		if len(res.Samples) < 2 {
			res.Samples = append(res.Samples, map[string]any{"writes": K, "updates_calls": calls, "received": tail(got)})
		}
	}
	res.Distinct = res.Evals
}

func seqDiff(got, want []string) string {
	switch {
	case len(got) < len(want):
		return "missing-events"
	case len(got) > len(want):
		return "extra-events"
	}
	return "order-or-content"
}

func tail(a []string) []string {
	if len(a) > 12 {
		return append([]string{"..."}, a[len(a)-12:]...)
	}
	return a
}

// ---------------------------------------------------------------------------
// C15: error values captured from the real client
// ---------------------------------------------------------------------------

func batchCaptured(t *testing.T, e *env, res *result, k int) {
	name := fmt.Sprintf("cap%d_%d", res.Seed, k)
	kv := e.bucket(t, name, expiryTTL)
	type cap struct {
		what string
		err  error
		want string // permanent | transient | ""
	}
	var caps []cap
	rev, err := kv.Create("k", []byte("v"))
	if err != nil {
		t.Fatalf("create: %v", err)
	}
	_, err = kv.Update("k", []byte("w"), rev+7)
	caps = append(caps, cap{"update-with-wrong-revision", err, "permanent"})
	_, err = kv.Create("k", []byte("again"))
	caps = append(caps, cap{"create-on-existing-key", err, "permanent"})
	kv.Delete("k")
	_, err = kv.Update("k", []byte("w"), rev)
	caps = append(caps, cap{"update-after-delete", err, "permanent"})
	_, err = kv.Get("k")
	caps = append(caps, cap{"get-deleted", err, ""})
	_, err = kv.Get("never")
	caps = append(caps, cap{"get-missing", err, ""})
	rev2, _ := kv.Create("x", []byte("v"))
	time.Sleep(expiryTTL + 600*time.Millisecond)
	_, err = kv.Update("x", []byte("w"), rev2)
	caps = append(caps, cap{"update-after-expiry", err, "permanent"})
	// no responders: a request nobody serves
	_, err = e.nc.Request("verif.nobody.listens", nil, 500*time.Millisecond)
	caps = append(caps, cap{"no-responders", err, "transient"})
	// time-out: a responder that never answers
	sub, _ := e.nc.SubscribeSync("verif.silent")
	_, err = e.nc.Request("verif.silent", nil, 200*time.Millisecond)
	caps = append(caps, cap{"request-time-out", err, "transient"})
	sub.Unsubscribe()
	// closed connection, through the adapter
	ctx, cancel := context.WithCancel(context.Background())
	defer cancel()
	nc2, err2 := nats.Connect(e.nc.ConnectedUrl())
	if err2 == nil {
		kv2, err3 := leader.VerifNewKeyValue(nc2, name)
		if err3 == nil {
			nc2.Close()
			_, err = kv2.Update("x", []byte("z"), 1)
			caps = append(caps, cap{"update-on-closed-connection", err, "transient"})
			_, err = kv2.Get("x")
			caps = append(caps, cap{"get-on-closed-connection", err, "transient"})
		}
	}
	_ = ctx
	e.js.DeleteKeyValue(name)
	for _, c := range caps {
		res.Evals++
		if c.err == nil {
			res.viol("C15", "captured", "no-error-captured:"+c.what, "expected an error from the real client for "+c.what)
			continue
		}
		res.obs("c15.captured", 1)
		p, tr := leader.IsPermanentError(c.err), leader.IsTransientError(c.err)
		res.Samples = append(res.Samples, map[string]any{"case": c.what, "error": c.err.Error(), "type": fmt.Sprintf("%T", c.err), "permanent": p, "transient": tr})
		if p == tr {
			res.viol("C15", "exclusive-total", "captured-both-or-neither:"+c.what, fmt.Sprintf("%s: %q permanent=%v transient=%v", c.what, c.err, p, tr))
		}
		if c.want == "permanent" && !p {
			res.viol("C15", "captured-class", "conflict-classified-transient:"+c.what, fmt.Sprintf("%s: the client returned %T %q, classified transient: a deposed leader would retry", c.what, c.err, c.err))
		}
		if c.want == "transient" && !tr {
			res.viol("C15", "captured-class", "outage-classified-permanent:"+c.what, fmt.Sprintf("%s: the client returned %T %q, classified permanent", c.what, c.err, c.err))
		}
	}
	res.Distinct = len(caps)
}

func headTail(a []string) []string {
	if len(a) > 16 {
		o := append([]string{}, a[:6]...)
		o = append(o, "...")
		return append(o, a[len(a)-8:]...)
	}
	return a
}
