// Engine PURE: generated inputs of exported functions compared with independently
// written oracles (C15 error classification, C16 configuration validation,
// C17 backoff / retry / circuit breaker under a virtual clock).
package pure

import (
	"context"
	"encoding/json"
	"errors"
	"fmt"
	"hash/fnv"
	"math"
	"math/big"
	"math/rand/v2"
	"os"
	"strconv"
	"strings"
	"sync"
	"sync/atomic"
	"testing"
	"testing/synctest"
	"time"

	leader "github.com/ali-assar/NATS-Leader-Election/leader"
	"github.com/nats-io/nats.go"
	"github.com/prometheus/client_golang/prometheus"
	"go.uber.org/zap"

	"verifharness/h"
)

type line struct {
	Begin  string    `json:"begin,omitempty"`
	K      int       `json:"k"`
	Result *h.Result `json:"result,omitempty"`
	Replay string    `json:"replay,omitempty"`
}

// writeReplay stores the failing batch (engine, class, seed, k and the concrete
// failing inputs as reported by the oracle) so that it can be re-run.
func writeReplay(res *h.Result, class string, seed uint64, k int) string {
	if len(res.Viol) == 0 {
		return ""
	}
	d := os.Getenv("VERIF_REPLAY_DIR")
	if d == "" {
		d = "/verif/replays"
	}
	os.MkdirAll(d, 0o755)
	p := d + "/" + res.Name + ".json"
	b, _ := json.Marshal(map[string]any{"engine": "pure", "class": class, "seed": seed, "k": k, "tier": os.Getenv("VERIF_TIER"), "violations": res.Viol})
	os.WriteFile(p, b, 0o644)
	return p
}

var out *os.File

func emit(l line) {
	b, _ := json.Marshal(l)
	out.Write(append(b, '\n'))
}

func envInt(k string, d int) int {
	if v := os.Getenv(k); v != "" {
		if n, err := strconv.Atoi(v); err == nil {
			return n
		}
	}
	return d
}

func newRng(seed uint64, class string, k int) *rand.Rand {
	hh := fnv.New64a()
	hh.Write([]byte(class))
	return rand.New(rand.NewPCG(seed*0x9E3779B97F4A7C15+uint64(k), hh.Sum64()))
}

func newResult(class string, seed uint64, k int) *h.Result {
	return &h.Result{Name: fmt.Sprintf("%s-%d-%d", class, seed, k), Class: class, Seed: seed, Obs: map[string]int{}, FP: map[string]string{}}
}

func addViol(r *h.Result, prop, clause, sig, detail string) {
	for _, v := range r.Viol {
		if v.Prop == prop && v.Sig == sig {
			return
		}
	}
	r.Viol = append(r.Viol, h.Violation{Prop: prop, Clause: clause, Sig: sig, Detail: detail})
}

func TestBatch(t *testing.T) {
	outPath := os.Getenv("VERIF_OUT")
	if outPath == "" {
		t.Skip("VERIF_OUT not set")
	}
	var err error
	out, err = os.OpenFile(outPath, os.O_CREATE|os.O_WRONLY|os.O_APPEND, 0o644)
	if err != nil {
		t.Fatal(err)
	}
	defer out.Close()
	class := os.Getenv("VERIF_CLASS")
	seed := uint64(envInt("VERIF_SEED", 1))
	from, to := envInt("VERIF_FROM", 0), envInt("VERIF_TO", 1)
	for k := from; k < to; k++ {
		res := newResult(class, seed, k)
		emit(line{Begin: res.Name, K: k})
		switch class {
		case "c15":
			batchC15(res, newRng(seed, class, k))
		case "c16":
			batchC16(res, k, os.Getenv("VERIF_TIER") == "thorough")
		case "c16rand":
			batchC16Rand(res, newRng(seed, class, k))
		case "c17backoff":
			batchBackoff(res, newRng(seed, class, k))
		case "c17retry":
			batchRetry(t, res, newRng(seed, class, k))
		case "c17breaker":
			batchBreaker(t, res, newRng(seed, class, k))
		default:
			t.Fatalf("unknown class %q", class)
		}
		emit(line{K: k, Result: res, Replay: writeReplay(res, class, seed, k)})
	}
}

// ---------------------------------------------------------------------------
// C15
// ---------------------------------------------------------------------------

type kind int

const (
	neutral kind = iota
	kTransient
	kPermanent
	kSoft // free text that contains a pattern of either classifier: makes the tree ambiguous
)

type node struct {
	err   error
	desc  string
	kinds map[kind]bool
}

// classifiedLeaves names the documented-class leaves occurring in a description.
func classifiedLeaves(desc string) string {
	var o []string
	d := strings.ReplaceAll(desc, "TokenValidationError", "TokenVE")
	for _, n := range []string{"context.Canceled", "context.DeadlineExceeded", "TimeoutError", "ErrInvalidConfig", "ValidationError", "ErrPermissionDenied", "ErrBucketNotFound", "APIError(10071,wrong last sequence)", "nats.ErrKeyExists", "Create-conflict"} {
		if strings.Contains(d, n) {
			o = append(o, n)
		}
	}
	return strings.Join(o, "+")
}

func firstPattern(text string, pats []string) string {
	lt := strings.ToLower(text)
	for _, p := range pats {
		if strings.Contains(lt, p) {
			return p
		}
	}
	return "none"
}

func wrapped(desc string) string {
	if strings.ContainsAny(desc, "({") && !strings.HasPrefix(desc, "TimeoutError(") && !strings.HasPrefix(desc, "ValidationError(") {
		return "wrapped"
	}
	return "direct"
}

var permPatterns = []string{"revision mismatch", "wrong last sequence", "key exists", "key not found", "permission denied", "bucket not found", "access denied", "invalid", "authentication"}
var transPatterns = []string{"timeout", "deadline exceeded", "connection lost", "connection refused", "temporary", "unavailable", "network", "i/o timeout", "connection reset"}
var neutralWords = []string{"boom", "failed to do the thing", "leader election", "x", "", "état", "step 7", "refresh", "store said no"}

func anyText(r *rand.Rand) (string, bool) {
	switch r.IntN(5) {
	case 0:
		return permPatterns[r.IntN(len(permPatterns))], true
	case 1:
		return transPatterns[r.IntN(len(transPatterns))], true
	case 2:
		b := make([]byte, r.IntN(12))
		for i := range b {
			b[i] = byte(r.IntN(256))
		}
		s := string(b)
		return s, hasPattern(s)
	case 3:
		s := strings.ToUpper(permPatterns[r.IntN(len(permPatterns))]) + " " + neutralWords[r.IntN(len(neutralWords))]
		return s, true
	default:
		return neutralWords[r.IntN(len(neutralWords))], false
	}
}

func hasPattern(s string) bool {
	ls := strings.ToLower(s)
	for _, p := range permPatterns {
		if strings.Contains(ls, p) {
			return true
		}
	}
	for _, p := range transPatterns {
		if strings.Contains(ls, p) {
			return true
		}
	}
	return false
}

func neutralText(r *rand.Rand) string { return neutralWords[r.IntN(len(neutralWords))] }

var natsErrs = []error{nats.ErrTimeout, nats.ErrNoResponders, nats.ErrConnectionClosed, nats.ErrKeyExists, nats.ErrKeyNotFound, nats.ErrKeyDeleted,
	nats.ErrBadSubscription, nats.ErrDisconnected, nats.ErrNoStreamResponse, nats.ErrBucketNotFound, nats.ErrInvalidKey, nats.ErrAuthorization,
	nats.ErrAuthExpired, nats.ErrPermissionViolation, nats.ErrStaleConnection, nats.ErrBadBucket, nats.ErrSlowConsumer, nats.ErrMaxPayload}

var libSentinels = []error{leader.ErrNotLeader, leader.ErrAlreadyStarted, leader.ErrAlreadyStopped, leader.ErrElectionFailed, leader.ErrHeartbeatFailed,
	leader.ErrTokenValidationFailed, leader.ErrConnectionLost, leader.ErrTokenInvalid, leader.ErrTokenMismatch}

func merge(a, b map[kind]bool) map[kind]bool {
	o := map[kind]bool{}
	for k := range a {
		o[k] = true
	}
	for k := range b {
		o[k] = true
	}
	return o
}

func genLeaf(r *rand.Rand) node {
	switch r.IntN(12) {
	case 0:
		return node{context.Canceled, "context.Canceled", map[kind]bool{kTransient: true}}
	case 1:
		return node{context.DeadlineExceeded, "context.DeadlineExceeded", map[kind]bool{kTransient: true}}
	case 2:
		// the operation name is part of the TimeoutError itself: arbitrary text allowed
		op, _ := anyText(r)
		return node{leader.NewTimeoutError(op, time.Duration(r.IntN(5000))*time.Millisecond, nil), fmt.Sprintf("TimeoutError(op=%q)", op), map[kind]bool{kTransient: true}}
	case 3:
		return node{leader.ErrInvalidConfig, "ErrInvalidConfig", map[kind]bool{kPermanent: true}}
	case 4:
		f, _ := anyText(r)
		reason, _ := anyText(r)
		return node{leader.NewValidationError(f, r.IntN(10), reason), fmt.Sprintf("ValidationError(field=%q,reason=%q)", f, reason), map[kind]bool{kPermanent: true}}
	case 5:
		return node{leader.ErrPermissionDenied, "ErrPermissionDenied", map[kind]bool{kPermanent: true}}
	case 6:
		return node{leader.ErrBucketNotFound, "ErrBucketNotFound", map[kind]bool{kPermanent: true}}
	case 7:
		e := libSentinels[r.IntN(len(libSentinels))]
		k := map[kind]bool{}
		if hasPattern(e.Error()) {
			k[kSoft] = true
		}
		return node{e, "lib:" + e.Error(), k}
	case 8:
		e := natsErrs[r.IntN(len(natsErrs))]
		k := map[kind]bool{}
		if hasPattern(e.Error()) {
			k[kSoft] = true
		}
		return node{e, "nats:" + e.Error(), k}
	case 9:
		codes := []nats.ErrorCode{10071, 10059, 10003, 10037, 0, nats.ErrorCode(r.IntN(20000))}
		d, soft := anyText(r)
		e := &nats.APIError{Code: []int{400, 404, 500, 503}[r.IntN(4)], ErrorCode: codes[r.IntN(len(codes))], Description: d}
		k := map[kind]bool{}
		if soft || hasPattern(e.Error()) {
			k[kSoft] = true
		}
		return node{e, fmt.Sprintf("APIError(%d,%q)", e.ErrorCode, d), k}
	case 10:
		// what the client returns for a revision conflict / a create on an existing key:
		// API error 10071 with the server's description, the ErrKeyExists sentinel, and
		// Create's own wrapping of it (documented permanent: a deposed leader must not retry)
		switch r.IntN(3) {
		case 0:
			e := &nats.APIError{Code: 400, ErrorCode: nats.JSErrCodeStreamWrongLastSequence, Description: fmt.Sprintf("wrong last sequence: %d", r.IntN(1000))}
			return node{e, "APIError(10071,wrong last sequence)", map[kind]bool{kPermanent: true}}
		case 1:
			return node{nats.ErrKeyExists, "nats.ErrKeyExists", map[kind]bool{kPermanent: true}}
		default:
			e := fmt.Errorf("%w: %s", &nats.APIError{Code: 400, ErrorCode: nats.JSErrCodeStreamWrongLastSequence, Description: fmt.Sprintf("wrong last sequence: %d", r.IntN(1000))}, "key exists")
			return node{e, "Create-conflict(wrong last sequence: key exists)", map[kind]bool{kPermanent: true}}
		}
	default:
		s, soft := anyText(r)
		k := map[kind]bool{}
		if soft {
			k[kSoft] = true
		}
		return node{errors.New(s), fmt.Sprintf("errors.New(%q)", s), k}
	}
}

func genTree(r *rand.Rand, depth int) node {
	if depth == 0 || r.IntN(3) == 0 {
		return genLeaf(r)
	}
	a := genTree(r, depth-1)
	switch r.IntN(7) {
	case 0:
		return node{fmt.Errorf("%s: %w", neutralText(r), a.err), "wrap(" + a.desc + ")", a.kinds}
	case 1:
		b := genTree(r, depth-1)
		return node{fmt.Errorf("%w / %w", a.err, b.err), "wrap2(" + a.desc + "," + b.desc + ")", merge(a.kinds, b.kinds)}
	case 2:
		b := genTree(r, depth-1)
		return node{errors.Join(a.err, b.err), "join(" + a.desc + "," + b.desc + ")", merge(a.kinds, b.kinds)}
	case 3:
		return node{leader.NewElectionError("CODE", "inst-1", neutralText(r), a.err), "ElectionError(" + a.desc + ")", a.kinds}
	case 4:
		// a TimeoutError that carries an inner error: itself transient-kind
		return node{leader.NewTimeoutError(neutralText(r), time.Second, a.err), "TimeoutError{" + a.desc + "}", merge(a.kinds, map[kind]bool{kTransient: true})}
	case 5:
		return node{&leader.TokenValidationError{LocalToken: "l", KvToken: "k", Reason: neutralText(r), Err: a.err}, "TokenValidationError(" + a.desc + ")", a.kinds}
	default:
		return node{fmt.Errorf("layer %d: %w", depth, a.err), "wrap(" + a.desc + ")", a.kinds}
	}
}

func batchC15(res *h.Result, r *rand.Rand) {
	n := envInt("VERIF_BATCH", 5000)
	distinct := map[string]bool{}
	// nil first
	if leader.IsPermanentError(nil) || leader.IsTransientError(nil) {
		addViol(res, "C15", "nil", "nil-classified", "nil is classified as an error")
	}
	// deep and wide nesting ("arbitrary nesting of %w"): an interruption (cancellation, deadline,
	// TimeoutError) is transient however many layers wrap it and whatever their texts say -
	// also texts that contain the words the classifier looks for; an identity-permanent
	// error (configuration, permission, missing bucket) stays permanent under neutral layers
	for _, depth := range []int{1, 8, 15, 16, 17, 18, 33, 64, 300} {
		for li := 0; li < 6; li++ {
			var leaf node
			switch li {
			case 0:
				leaf = node{context.Canceled, "context.Canceled", map[kind]bool{kTransient: true}}
			case 1:
				leaf = node{context.DeadlineExceeded, "context.DeadlineExceeded", map[kind]bool{kTransient: true}}
			case 2:
				leaf = node{leader.NewTimeoutError("refresh", time.Second, nil), "TimeoutError", map[kind]bool{kTransient: true}}
			case 3:
				leaf = node{leader.ErrInvalidConfig, "ErrInvalidConfig", map[kind]bool{kPermanent: true}}
			case 4:
				leaf = node{leader.ErrPermissionDenied, "ErrPermissionDenied", map[kind]bool{kPermanent: true}}
			default:
				leaf = node{leader.ErrBucketNotFound, "ErrBucketNotFound", map[kind]bool{kPermanent: true}}
			}
			for _, hostileText := range []bool{false, true} {
				if hostileText && leaf.kinds[kPermanent] {
					continue
				}
				for _, wide := range []bool{false, true} {
					err := leaf.err
					for d := 0; d < depth; d++ {
						txt := neutralText(r)
						if hostileText {
							txt = permPatterns[(d+li)%len(permPatterns)]
						}
						if wide && d%3 == 2 {
							// a join whose other members are neutral
							err = errors.Join(errors.New(neutralText(r)), err, errors.New(neutralText(r)))
						} else {
							err = fmt.Errorf("%s: %w", txt, err)
						}
					}
					p, tr := leader.IsPermanentError(err), leader.IsTransientError(err)
					res.Evals++
					res.Obs["c15.deep_chains"]++
					desc := fmt.Sprintf("%s under %d layers (hostile text=%v, joins=%v)", leaf.desc, depth, hostileText, wide)
					if p == tr {
						addViol(res, "C15", "exclusive-total", fmt.Sprintf("both=%v:deep:%s", p, leaf.desc), fmt.Sprintf("IsPermanentError=%v IsTransientError=%v for %s", p, tr, desc))
					} else if leaf.kinds[kTransient] && !tr {
						addViol(res, "C15", "documented-class", "transient-kind-classified-permanent:"+leaf.desc+":deep", "documented transient error classified permanent: "+desc)
					} else if leaf.kinds[kPermanent] && !p {
						addViol(res, "C15", "documented-class", "permanent-kind-classified-transient:"+leaf.desc+":deep", "documented permanent error classified transient: "+desc)
					}
				}
			}
		}
	}
	// twins: two error values with the SAME message and different chains, classified one after
	// the other in one process - a text-only error first, then an interruption that renders to
	// the same text (the verdict belongs to the value, not to its message)
	for ti, frag := range permPatterns {
		for li, leaf := range []error{context.Canceled, context.DeadlineExceeded} {
			txt := fmt.Sprintf("refresh %d/%d refused: %s", ti, li, frag)
			twin := errors.New(txt + ": " + leaf.Error())
			real := fmt.Errorf("%s: %w", txt, leaf)
			_ = leader.IsPermanentError(twin)
			_ = leader.IsTransientError(twin)
			p, tr := leader.IsPermanentError(real), leader.IsTransientError(real)
			res.Evals++
			res.Obs["c15.twins"]++
			if p || !tr {
				addViol(res, "C15", "documented-class", "transient-kind-classified-permanent:"+leaf.Error()+":after-text-twin", fmt.Sprintf("%q wrapping %v classified permanent=%v transient=%v after an errors.New with the same text had been classified", txt, leaf, p, tr))
			}
		}
	}
	type verdict struct {
		nd    node
		p, tr bool
	}
	var pool []verdict
	for i := 0; i < n; i++ {
		nd := genTree(r, 4)
		p, tr := leader.IsPermanentError(nd.err), leader.IsTransientError(nd.err)
		res.Evals++
		distinct[nd.desc] = true
		if len(pool) < 96 {
			pool = append(pool, verdict{nd, p, tr})
		}
		if p == tr {
			addViol(res, "C15", "exclusive-total", fmt.Sprintf("both=%v:%s", p, classifiedLeaves(nd.desc)), fmt.Sprintf("IsPermanentError=%v IsTransientError=%v for %s", p, tr, nd.desc))
		}
		if nd.kinds[kSoft] || (nd.kinds[kTransient] && nd.kinds[kPermanent]) {
			res.Obs["c15.ambiguous"]++
			continue
		}
		switch {
		case nd.kinds[kTransient]:
			res.Obs["c15.expected_transient"]++
			if !tr {
				addViol(res, "C15", "documented-class", "transient-kind-classified-permanent:"+classifiedLeaves(nd.desc)+":"+wrapped(nd.desc)+":text-has:"+firstPattern(nd.err.Error(), permPatterns), fmt.Sprintf("documented transient error classified permanent: %s (text %q)", nd.desc, nd.err.Error()))
			}
		case nd.kinds[kPermanent]:
			res.Obs["c15.expected_permanent"]++
			if !p {
				addViol(res, "C15", "documented-class", "permanent-kind-classified-transient:"+classifiedLeaves(nd.desc)+":"+wrapped(nd.desc), fmt.Sprintf("documented permanent error classified transient: %s (text %q)", nd.desc, nd.err.Error()))
			}
		default:
			res.Obs["c15.neutral"]++
		}
		if len(res.Samples) < 3 {
			res.Samples = append(res.Samples, map[string]any{"error": nd.desc, "permanent": p, "transient": tr})
		}
	}
	// the classifiers are called from every loop of every election of a process at once: the
	// verdict on a value is the same when eight goroutines classify at the same time (the
	// values of this batch, verdicts taken one at a time above)
	if len(pool) > 0 {
		var wg sync.WaitGroup
		var mu sync.Mutex
		bad := map[string]string{}
		for g := 0; g < 8; g++ {
			wg.Add(1)
			go func(g int) {
				defer wg.Done()
				for it := 0; it < 2500; it++ {
					v := pool[(it*7+g*13)%len(pool)]
					p, tr := leader.IsPermanentError(v.nd.err), leader.IsTransientError(v.nd.err)
					if p != v.p || tr != v.tr {
						mu.Lock()
						if len(bad) < 4 {
							bad[classifiedLeaves(v.nd.desc)] = fmt.Sprintf("%s: permanent=%v transient=%v alone, permanent=%v transient=%v while 8 goroutines classify", v.nd.desc, v.p, v.tr, p, tr)
						}
						mu.Unlock()
					}
				}
			}(g)
		}
		wg.Wait()
		res.Obs["c15.concurrent_classifications"] += 8 * 2500
		for _, d := range bad {
			addViol(res, "C15", "stable-verdict", "verdict-differs-under-concurrent-use", d)
		}
	}
	res.Distinct = len(distinct)
}

// shape abstracts a tree description to its constructors (signature of a finding).
func shape(desc string) string {
	var b strings.Builder
	inq := false
	for _, c := range desc {
		switch {
		case c == '"':
			inq = !inq
		case inq:
		case c == '=' || c == ',' || c == '(' || c == ')' || c == '{' || c == '}' || c == ':' || c == '.' || (c >= 'A' && c <= 'Z') || (c >= 'a' && c <= 'z'):
			b.WriteRune(c)
		}
	}
	s := b.String()
	if len(s) > 80 {
		s = s[:80]
	}
	return s
}

// ---------------------------------------------------------------------------
// C16
// ---------------------------------------------------------------------------

type countingProvider struct {
	js, kv atomic.Int32
	st     *h.Store
}

func (p *countingProvider) JetStream() (leader.JetStreamContext, error) { p.js.Add(1); return p, nil }
func (p *countingProvider) KeyValue(bucket string) (leader.KeyValue, error) {
	p.kv.Add(1)
	return p.st.Client("c16"), nil
}

const year = 365 * 24 * time.Hour

var (
	strVals   = []string{"", "x", " ", "héllo-ключ", strings.Repeat("k", 4096)}
	hVals     = []time.Duration{-1, 0, 1, time.Millisecond, time.Second, time.Hour, year}
	intVals   = []int{-1, 0, 1}
	c16Store  = h.NewStore(h.NewTrace(), time.Hour, 1, h.Latency{}, h.WatchPolicy{})
	c16Fields = map[string]bool{}
)

func ttlVals(hd time.Duration) []time.Duration {
	return []time.Duration{-1, 0, 1, 3*hd - 1, 3 * hd, 3*hd + 1, year * 4}
}
func viVals(hd time.Duration) []time.Duration { return []time.Duration{-1, 0, 1, hd - 1, hd, hd + 1} }
func grVals(hd time.Duration) []time.Duration {
	return []time.Duration{-1, 0, 1, 2*hd - 1, 2 * hd, 2*hd + 1}
}

// predicate transcribes the statement; it returns the set of offending fields.
func offending(c leader.ElectionConfig) map[string]bool {
	o := map[string]bool{}
	if c.Bucket == "" {
		o["Bucket"] = true
	}
	if c.Group == "" {
		o["Group"] = true
	}
	if c.InstanceID == "" {
		o["InstanceID"] = true
	}
	if c.TTL <= 0 {
		o["TTL"] = true
	}
	if c.HeartbeatInterval <= 0 {
		o["HeartbeatInterval"] = true
	}
	// TTL >= 3 x HeartbeatInterval, evaluated exactly (no overflow)
	if new(big.Int).Mul(big.NewInt(3), big.NewInt(int64(c.HeartbeatInterval))).Cmp(big.NewInt(int64(c.TTL))) > 0 {
		o["TTL"] = true
		o["HeartbeatInterval"] = true
	}
	if !(c.ValidationInterval == 0 || c.ValidationInterval >= c.HeartbeatInterval) {
		o["ValidationInterval"] = true
	}
	if !(c.DisconnectGracePeriod == 0 || new(big.Int).Mul(big.NewInt(2), big.NewInt(int64(c.HeartbeatInterval))).Cmp(big.NewInt(int64(c.DisconnectGracePeriod))) <= 0) {
		o["DisconnectGracePeriod"] = true
	}
	if c.MaxConsecutiveFailures < 0 {
		o["MaxConsecutiveFailures"] = true
	}
	if c.AllowPriorityTakeover && !(c.Priority > 0) {
		o["Priority"] = true
		o["AllowPriorityTakeover"] = true
	}
	return o
}

func checkConfig(res *h.Result, c leader.ElectionConfig) {
	p := &countingProvider{st: c16Store}
	calls0 := c16Store.Calls()
	g0 := 0
	el, err := leader.NewElection(p, c)
	off := offending(c)
	res.Evals++
	desc := fmt.Sprintf("B=%d G=%d I=%d H=%d TTL=%d VI=%d GR=%d MCF=%d P=%d T=%v", len(c.Bucket), len(c.Group), len(c.InstanceID), c.HeartbeatInterval, c.TTL, c.ValidationInterval, c.DisconnectGracePeriod, c.MaxConsecutiveFailures, c.Priority, c.AllowPriorityTakeover)
	_ = g0
	if len(off) == 0 {
		res.Obs["c16.expected_accept"]++
		if err != nil {
			addViol(res, "C16", "accept", "rejects-documented-config:"+errField(err), fmt.Sprintf("valid configuration rejected: %s: %v", desc, err))
			return
		}
		if el == nil {
			addViol(res, "C16", "accept", "nil-election", "nil election without error: "+desc)
		}
		if c16Store.Calls() != calls0 {
			addViol(res, "C16", "accept-side-effects", "store-contacted-before-start", "store operation issued by NewElection: "+desc)
		}
		return
	}
	res.Obs["c16.expected_reject"]++
	if err == nil {
		var fs []string
		for f := range off {
			fs = append(fs, f)
		}
		sortStr(fs)
		addViol(res, "C16", "reject", "accepts-invalid:"+strings.Join(fs, "+")+":"+signs(c), fmt.Sprintf("invalid configuration accepted (%v): %s", fs, desc))
		return
	}
	var ve *leader.ValidationError
	if !errors.As(err, &ve) {
		addViol(res, "C16", "reject-error", "not-a-validation-error", fmt.Sprintf("%s rejected with %T %v", desc, err, err))
		return
	}
	c16Fields[ve.Field] = true
	if !off[ve.Field] {
		addViol(res, "C16", "reject-field", "names-wrong-field:"+ve.Field, fmt.Sprintf("%s rejected naming field %q, offending fields %v", desc, ve.Field, off))
	}
	if p.js.Load() != 0 || p.kv.Load() != 0 || c16Store.Calls() != calls0 {
		addViol(res, "C16", "reject-side-effects", "store-contacted-on-reject", fmt.Sprintf("%s rejected after contacting the provider (JetStream %d, KeyValue %d)", desc, p.js.Load(), p.kv.Load()))
	}
	// the second public entry point, NewElectionWithConn, with a connection that is not
	// connected to anything: an invalid configuration is rejected in the same way - a
	// validation error naming an offending field - without the connection being used (any
	// use of it fails with a connection error instead)
	if res.Evals%8 == 0 {
		res.Obs["c16.with_conn_rejects"]++
		func() {
			defer func() {
				if r := recover(); r != nil {
					addViol(res, "C16", "reject-side-effects", "with-conn:panic", fmt.Sprintf("NewElectionWithConn panicked on %s: %v", desc, r))
				}
			}()
			_, err2 := leader.NewElectionWithConn(&nats.Conn{}, c)
			var ve2 *leader.ValidationError
			switch {
			case err2 == nil:
				addViol(res, "C16", "reject", "with-conn:accepts-invalid", "NewElectionWithConn accepted "+desc)
			case !errors.As(err2, &ve2):
				addViol(res, "C16", "reject-side-effects", "with-conn:connection-used-before-validation", fmt.Sprintf("NewElectionWithConn on an unconnected connection: %s rejected with %T %v, not a validation error (the connection was used first)", desc, err2, err2))
			case !off[ve2.Field]:
				addViol(res, "C16", "reject-field", "with-conn:names-wrong-field:"+ve2.Field, fmt.Sprintf("NewElectionWithConn: %s rejected naming field %q, offending fields %v", desc, ve2.Field, off))
			}
		}()
	}
}

// withOptionals sets the optional collaborators (which the statement does not make part of
// validity: the verdict must not depend on them) in one of their 8 presence combinations.
func withOptionals(c *leader.ElectionConfig, n int) {
	if n&1 != 0 {
		c.HealthChecker = nopHealth{}
	}
	if n&2 != 0 {
		c.Logger = zapNop{}
	}
	if n&4 != 0 {
		c.Metrics = nopMetrics{}
	}
}

type nopHealth struct{}

func (nopHealth) Check(context.Context) bool { return true }

type zapNop struct{}

func (zapNop) Debug(string, ...zap.Field) {}
func (zapNop) Info(string, ...zap.Field)  {}
func (zapNop) Warn(string, ...zap.Field)  {}
func (zapNop) Error(string, ...zap.Field) {}
func (zapNop) Fatal(string, ...zap.Field) {}

type nopMetrics struct{}

func (nopMetrics) SetIsLeader(float64, prometheus.Labels)                    {}
func (nopMetrics) SetConnectionStatus(float64, prometheus.Labels)            {}
func (nopMetrics) IncTransitions(prometheus.Labels)                          {}
func (nopMetrics) IncFailures(prometheus.Labels)                             {}
func (nopMetrics) IncAcquireAttempts(prometheus.Labels)                      {}
func (nopMetrics) IncTokenValidationFailures(prometheus.Labels)              {}
func (nopMetrics) ObserveHeartbeatDuration(time.Duration, prometheus.Labels) {}
func (nopMetrics) ObserveLeaderDuration(time.Duration, prometheus.Labels)    {}

func signs(c leader.ElectionConfig) string {
	s := func(d time.Duration) string {
		switch {
		case d < 0:
			return "neg"
		case d == 0:
			return "zero"
		}
		return "pos"
	}
	o := "VI=" + s(c.ValidationInterval) + ",GR=" + s(c.DisconnectGracePeriod)
	if c.HealthChecker != nil {
		o += ",HC"
	}
	return o
}

func errField(err error) string {
	var ve *leader.ValidationError
	if errors.As(err, &ve) {
		return ve.Field
	}
	return "?"
}

func sortStr(a []string) {
	for i := range a {
		for j := i + 1; j < len(a); j++ {
			if a[j] < a[i] {
				a[i], a[j] = a[j], a[i]
			}
		}
	}
}

// C16Slices: the lattice is split by (bucket, group, instance) string triple.
func batchC16(res *h.Result, k int, full bool) {
	strs := strVals
	if !full {
		strs = strVals[:2]
	}
	ns := len(strs)
	if k >= ns*ns*ns {
		return
	}
	b, g, i := strs[k%ns], strs[(k/ns)%ns], strs[(k/ns/ns)%ns]
	n := 0
	for _, hd := range hVals {
		for _, ttl := range ttlVals(hd) {
			for _, vi := range viVals(hd) {
				for _, gr := range grVals(hd) {
					for _, mcf := range intVals {
						for _, pr := range intVals {
							for _, tk := range []bool{false, true} {
								c := leader.ElectionConfig{Bucket: b, Group: g, InstanceID: i, HeartbeatInterval: hd, TTL: ttl,
									ValidationInterval: vi, DisconnectGracePeriod: gr, MaxConsecutiveFailures: mcf, Priority: pr, AllowPriorityTakeover: tk}
								withOptionals(&c, n)
								checkConfig(res, c)
								n++
								if n%20011 == 1 && len(res.Samples) < 3 {
									res.Samples = append(res.Samples, map[string]any{"H": hd.String(), "TTL": ttl.String(), "VI": vi.String(), "GR": gr.String(), "MCF": mcf, "Priority": pr, "Takeover": tk, "offending": keys(offending(c))})
								}
							}
						}
					}
				}
			}
		}
	}
	res.Distinct = n
	res.Obs["c16.lattice_slices"]++
	if full {
		res.Obs["c16.exhaustive"]++
	}
}

func keys(m map[string]bool) []string {
	var o []string
	for k := range m {
		o = append(o, k)
	}
	sortStr(o)
	return o
}

func batchC16Rand(res *h.Result, r *rand.Rand) {
	n := envInt("VERIF_BATCH", 20000)
	seen := map[string]bool{}
	rd := func() time.Duration {
		switch r.IntN(5) {
		case 0:
			return 0
		case 1:
			return -time.Duration(r.Int64N(int64(year)))
		default:
			return time.Duration(r.Int64N(int64(year)))
		}
	}
	for j := 0; j < n; j++ {
		hd := rd()
		c := leader.ElectionConfig{Bucket: strVals[r.IntN(5)], Group: strVals[r.IntN(5)], InstanceID: strVals[r.IntN(5)], HeartbeatInterval: hd,
			MaxConsecutiveFailures: r.IntN(7) - 2, Priority: r.IntN(7) - 2, AllowPriorityTakeover: r.IntN(2) == 0}
		if r.IntN(2) == 0 {
			c.Bucket, c.Group, c.InstanceID = "b", "g", "i"
		}
		// durations near the thresholds of this H as often as far away
		pick := func(mult int64) time.Duration {
			switch r.IntN(4) {
			case 0:
				return time.Duration(mult*int64(hd) + r.Int64N(5) - 2)
			case 1:
				return 0
			default:
				return rd()
			}
		}
		c.TTL = pick(3)
		c.ValidationInterval = pick(1)
		c.DisconnectGracePeriod = pick(2)
		withOptionals(&c, r.IntN(8))
		checkConfig(res, c)
		seen[fmt.Sprint(c.HeartbeatInterval, c.TTL, c.ValidationInterval, c.DisconnectGracePeriod, c.MaxConsecutiveFailures, c.Priority, c.AllowPriorityTakeover, len(c.Bucket), len(c.Group), len(c.InstanceID))] = true
	}
	res.Distinct = len(seen)
}

// ---------------------------------------------------------------------------
// C17: CalculateBackoff
// ---------------------------------------------------------------------------

var attempts = func() []int {
	var a []int
	for i := 0; i <= 70; i++ {
		a = append(a, i)
	}
	return append(a, 100, 1023, 1024, 10000, 1000000, math.MaxInt32, math.MaxInt)
}()

func idealBackoff(cfg leader.BackoffConfig, n int) *big.Float {
	// min(Max, Initial * M^n) in arbitrary precision; M^n via exponent arithmetic
	maxF := new(big.Float).SetInt64(int64(cfg.MaxBackoff))
	if cfg.InitialBackoff == 0 {
		return new(big.Float)
	}
	if cfg.BackoffMultiplier == 1 {
		v := new(big.Float).SetInt64(int64(cfg.InitialBackoff))
		if v.Cmp(maxF) > 0 {
			return maxF
		}
		return v
	}
	// log2(Initial*M^n) > log2(Max) + 1  => capped (avoid astronomically large powers)
	lg := math.Log2(float64(cfg.InitialBackoff)) + float64(n)*math.Log2(cfg.BackoffMultiplier)
	if lg > 70 {
		return maxF
	}
	v := new(big.Float).SetPrec(200).SetInt64(int64(cfg.InitialBackoff))
	m := new(big.Float).SetPrec(200).SetFloat64(cfg.BackoffMultiplier)
	for i := 0; i < n; i++ {
		v.Mul(v, m)
	}
	if v.Cmp(maxF) > 0 {
		return maxF
	}
	return v
}

func batchBackoff(res *h.Result, r *rand.Rand) {
	n := envInt("VERIF_BATCH", 2000)
	distinct := map[string]bool{}
	for j := 0; j < n; j++ {
		cfg := leader.BackoffConfig{}
		switch r.IntN(4) {
		case 0:
			cfg.InitialBackoff = 0
		case 1:
			cfg.InitialBackoff = time.Duration(r.Int64N(int64(time.Hour)) + 1)
		default:
			cfg.InitialBackoff = time.Duration(r.Int64N(int64(time.Second)) + 1)
		}
		switch r.IntN(4) {
		case 0:
			cfg.MaxBackoff = 0
		case 1:
			cfg.MaxBackoff = time.Duration(r.Int64N(int64(24 * time.Hour)))
		default:
			cfg.MaxBackoff = time.Duration(r.Int64N(int64(time.Minute)))
		}
		cfg.BackoffMultiplier = []float64{1, 1.5, 2, 10, 1 + 9*r.Float64()}[r.IntN(5)]
		cfg.Jitter = []float64{0, 0.1, 0.5, 1, r.Float64()}[r.IntN(5)]
		at := attempts[r.IntN(len(attempts))]
		ideal := idealBackoff(cfg, at)
		lo := new(big.Float).Mul(ideal, big.NewFloat(1-cfg.Jitter))
		hi := new(big.Float).Mul(ideal, big.NewFloat(1+cfg.Jitter))
		lo.Sub(lo, big.NewFloat(1))
		hi.Add(hi, big.NewFloat(1))
		// float64 arithmetic in the implementation: allow relative 1e-9 on top of +-1ns
		slack := new(big.Float).Mul(ideal, big.NewFloat(1e-9))
		lo.Sub(lo, slack)
		hi.Add(hi, slack)
		distinct[fmt.Sprint(cfg, at)] = true
		for d := 0; d < 10; d++ {
			got := leader.CalculateBackoff(cfg, at)
			res.Evals++
			g := new(big.Float).SetInt64(int64(got))
			desc := fmt.Sprintf("cfg={Initial:%v Max:%v Mult:%v Jitter:%v} attempt=%d -> %v (ideal %s ns)", cfg.InitialBackoff, cfg.MaxBackoff, cfg.BackoffMultiplier, cfg.Jitter, at, got, ideal.Text('f', 0))
			if got < 0 {
				addViol(res, "C17", "backoff-negative", fmt.Sprintf("backoff-negative:initial=%s:attempt>=%s", zeroStr(cfg.InitialBackoff), mag(at)), "negative backoff: "+desc)
				break
			}
			if g.Cmp(lo) < 0 || g.Cmp(hi) > 0 {
				addViol(res, "C17", "backoff-range", fmt.Sprintf("backoff-out-of-range:initial=%s:attempt>=%s", zeroStr(cfg.InitialBackoff), mag(at)), "outside +-Jitter of min(Max, Initial*Mult^n): "+desc)
				break
			}
		}
		if len(res.Samples) < 3 {
			res.Samples = append(res.Samples, map[string]any{"cfg": fmt.Sprint(cfg), "attempt": at, "ideal_ns": ideal.Text('f', 0)})
		}
	}
	res.Distinct = len(distinct)
	res.Obs["c17.backoff_inputs"] += n
}

func zeroStr(d time.Duration) string {
	if d == 0 {
		return "zero"
	}
	return "pos"
}

func mag(n int) string {
	switch {
	case n >= 1024:
		return "1024"
	case n > 70:
		return "71"
	}
	return "0"
}

// ---------------------------------------------------------------------------
// C17: RetryWithBackoff (virtual clock)
// ---------------------------------------------------------------------------

var errTransient = errors.New("store said no") // neutral text: transient by default
var errPermanent = leader.ErrPermissionDenied

func batchRetry(t *testing.T, res *h.Result, r *rand.Rand) {
	n := envInt("VERIF_BATCH", 200)
	distinct := map[string]bool{}
	for j := 0; j < n; j++ {
		L := r.IntN(8)
		script := make([]byte, L)
		for i := range script {
			// c: the operation's own work cancels the context, then fails transiently; T, D:
			// transient by identity (a TimeoutError of the operation, a deadline of a context of
			// its own); P: permanent by its text only (what the NATS client says for a refused write)
			script[i] = "tttTDpPoc"[r.IntN(9)]
		}
		maxAtt := r.IntN(7)
		cfg := leader.RetryConfig{MaxAttempts: maxAtt, BackoffConfig: leader.BackoffConfig{
			InitialBackoff:    []time.Duration{0, time.Duration(r.Int64N(int64(200*time.Millisecond)) + 1), time.Duration(r.Int64N(int64(200*time.Millisecond)) + 1), time.Duration(r.Int64N(int64(200*time.Millisecond)) + 1)}[r.IntN(4)],
			MaxBackoff:        time.Duration(r.Int64N(int64(2*time.Second)) + 1),
			BackoffMultiplier: []float64{1, 2, 3}[r.IntN(3)],
			Jitter:            []float64{0, 0.1, 0.5}[r.IntN(3)],
		}}
		cancelAt := time.Duration(-1)
		if r.IntN(3) == 0 {
			cancelAt = time.Duration(r.Int64N(int64(3 * time.Second)))
		}
		preCancelled := r.IntN(10) == 0
		// every third script runs through a circuit breaker that never opens (threshold far
		// above the runaway guard): the retry contract is the same with and without it
		withCB := r.IntN(3) == 0
		if withCB {
			cfg.CircuitBreaker = leader.NewCircuitBreaker(1000, time.Second)
			res.Obs["c17.retry_scripts_through_breaker"]++
		}
		key := fmt.Sprintf("%s/%d/%v/%v/%v/%v", script, maxAtt, cfg.BackoffConfig, cancelAt, preCancelled, withCB)
		distinct[key] = true
		var calls []time.Duration
		var errs []error // what each invocation returned
		var ret error
		var ctxErrAtEnd error
		var cancelledAt time.Duration = -1
		cancelCall := -1 // index of the invocation during which the context was cancelled
		synctest.Test(t, func(t *testing.T) {
			start := time.Now()
			ctx, cancel := context.WithCancel(context.Background())
			defer cancel()
			if preCancelled {
				cancel()
				cancelledAt = 0
			} else if cancelAt >= 0 {
				tm := time.AfterFunc(cancelAt, func() { cancelledAt = time.Since(start); cancel() })
				defer tm.Stop()
			}
			i := 0
			ret = leader.RetryWithBackoff(ctx, cfg, func() (opErr error) {
				calls = append(calls, time.Since(start))
				defer func() { errs = append(errs, opErr) }()
				c := byte('o')
				if i < len(script) {
					c = script[i]
				}
				i++
				if len(calls) > 64 {
					return errPermanent // runaway guard
				}
				switch c {
				case 't':
					return errTransient
				case 'c':
					if cancelCall < 0 {
						cancelCall = len(calls) - 1
						if cancelledAt < 0 {
							cancelledAt = time.Since(start)
						}
						cancel()
					}
					return errTransient
				case 'T':
					return leader.NewTimeoutError("refresh", 50*time.Millisecond, nil)
				case 'D':
					return fmt.Errorf("read of the record: %w", context.DeadlineExceeded)
				case 'p':
					return errPermanent
				case 'P':
					return fmt.Errorf("nats: wrong last sequence: %d: key exists", 7+len(calls))
				}
				return nil
			})
			ctxErrAtEnd = ctx.Err()
		})
		res.Evals++
		desc := fmt.Sprintf("script=%q MaxAttempts=%d backoff=%+v breaker=%v cancelAt=%v pre=%v -> calls at %v, returned %v", script, maxAtt, cfg.BackoffConfig, withCB, cancelAt, preCancelled, calls, ret)
		outcome := func(i int) byte {
			if i < len(script) {
				switch script[i] {
				case 'T', 'D':
					return 't'
				case 'P':
					return 'p'
				}
				return script[i]
			}
			return 'o'
		}
		if len(calls) > 64 {
			addViol(res, "C17", "retry-unbounded", "retry-runaway", desc)
			continue
		}
		if maxAtt > 0 && len(calls) > maxAtt {
			addViol(res, "C17", "retry-attempts", "retry-more-than-max-attempts", desc)
		}
		for i := range calls {
			if i > 0 {
				prev := outcome(i - 1)
				if prev == 'o' || prev == 'p' {
					addViol(res, "C17", "retry-after-final", "retry-called-after-"+string(prev), desc)
				}
				gap := calls[i] - calls[i-1]
				ideal := idealBackoff(cfg.BackoffConfig, i-1)
				idf, _ := ideal.Float64()
				lo := time.Duration(idf*(1-cfg.BackoffConfig.Jitter)) - time.Microsecond
				hi := time.Duration(idf*(1+cfg.BackoffConfig.Jitter)) + time.Microsecond
				if gap < lo || gap > hi {
					addViol(res, "C17", "retry-backoff", "retry-wait-out-of-range", fmt.Sprintf("wait before call %d was %v, expected [%v,%v]; %s", i+1, gap, lo, hi, desc))
				}
			}
			if cancelledAt >= 0 && calls[i] > cancelledAt {
				addViol(res, "C17", "retry-after-cancel", "retry-called-after-cancel", desc)
			}
			if cancelCall >= 0 && i > cancelCall {
				addViol(res, "C17", "retry-after-cancel", "retry-called-after-cancel:same-instant", desc)
			}
		}
		// return value class
		if len(calls) > 0 {
			last := outcome(len(calls) - 1)
			switch {
			case last == 'o':
				if ret != nil {
					addViol(res, "C17", "retry-return", "retry-error-after-success", desc)
				}
			case last == 'p':
				if !errors.Is(ret, errs[len(calls)-1]) {
					addViol(res, "C17", "retry-return", "retry-permanent-not-returned", desc)
				}
			default:
				lastErr := errs[len(calls)-1]
				if ret == nil {
					addViol(res, "C17", "retry-return", "retry-nil-after-failure", desc)
				}
				if !errors.Is(ret, lastErr) && !errors.Is(ret, context.Canceled) {
					addViol(res, "C17", "retry-return", "retry-unexpected-error", desc)
				}
				if errors.Is(ret, lastErr) && !errors.Is(ret, context.Canceled) && !(maxAtt > 0 && len(calls) == maxAtt) {
					addViol(res, "C17", "retry-gave-up-early", "retry-gave-up-before-max-attempts", desc)
				}
			}
		} else if ctxErrAtEnd == nil || ret == nil {
			addViol(res, "C17", "retry-return", "retry-no-call-no-cancel", desc)
		}
		if len(res.Samples) < 3 {
			res.Samples = append(res.Samples, map[string]any{"script": string(script), "max_attempts": maxAtt, "calls_at": fmt.Sprint(calls), "returned": fmt.Sprint(ret)})
		}
		res.Obs["c17.retry_scripts"]++
	}
	res.Distinct = len(distinct)
}

// ---------------------------------------------------------------------------
// C17: CircuitBreaker (virtual clock)
// ---------------------------------------------------------------------------

func batchBreaker(t *testing.T, res *h.Result, r *rand.Rand) {
	n := envInt("VERIF_BATCH", 200)
	distinct := map[string]bool{}
	for j := 0; j < n; j++ {
		th := 1 + r.IntN(5)
		cool := []time.Duration{time.Millisecond, 50 * time.Millisecond, time.Second, time.Minute}[r.IntN(4)]
		L := 3 + r.IntN(14)
		type step struct {
			dt   time.Duration
			fail bool
		}
		steps := make([]step, L)
		for i := range steps {
			steps[i] = step{[]time.Duration{0, cool - 1, cool, cool + 1, 2 * cool, 0, 0}[r.IntN(7)], r.IntN(3) != 0}
		}
		key := fmt.Sprint(th, cool, steps)
		distinct[key] = true
		var log []string
		synctest.Test(t, func(t *testing.T) {
			cb := leader.NewCircuitBreaker(th, cool)
			// reference automaton
			consec := 0
			open := false
			var lastFail time.Time
			for i, s := range steps {
				time.Sleep(s.dt)
				invoked := false
				err := cb.Call(func() error {
					invoked = true
					if s.fail {
						return errTransient
					}
					return nil
				})
				now := time.Now()
				mustNot := open && now.Sub(lastFail) < cool
				probe := open && !mustNot
				log = append(log, fmt.Sprintf("+%v fail=%v invoked=%v err=%v", s.dt, s.fail, invoked, err != nil))
				if mustNot {
					if invoked {
						addViol(res, "C17", "breaker-open", "breaker-invokes-while-open", fmt.Sprintf("threshold=%d cooldown=%v step %d: operation invoked %v after the latest failure; %v", th, cool, i, now.Sub(lastFail), log))
					}
					if err == nil {
						addViol(res, "C17", "breaker-open", "breaker-open-returns-nil", fmt.Sprintf("threshold=%d cooldown=%v step %d; %v", th, cool, i, log))
					}
					continue
				}
				if !invoked {
					why := "closed"
					if probe {
						why = "cooldown-elapsed"
					}
					addViol(res, "C17", "breaker-closed", "breaker-blocks-while-"+why, fmt.Sprintf("threshold=%d cooldown=%v step %d (consecutive failures %d): operation not invoked; %v", th, cool, i, consec, log))
					continue
				}
				if s.fail {
					consec++
					lastFail = now
					if err == nil {
						addViol(res, "C17", "breaker-return", "breaker-swallows-error", fmt.Sprint(log))
					}
					if consec >= th || probe {
						open = true
					}
				} else {
					consec = 0
					open = false
					if err != nil {
						addViol(res, "C17", "breaker-return", "breaker-error-on-success", fmt.Sprint(log))
					}
				}
			}
		})
		res.Evals++
		res.Obs["c17.breaker_scripts"]++
		if len(res.Samples) < 2 {
			res.Samples = append(res.Samples, map[string]any{"threshold": th, "cooldown": cool.String(), "steps": log})
		}
		// Overlapping callers: B enters Call while A's operation is still running; A's operation
		// then fails and opens the breaker (as the threshold-th failure, or as a failed probe).
		// If B's operation is invoked at all, then not after that failure within the cooldown.
		// (Real time, not a bubble: an implementation that serialises callers with a mutex held
		// across the operation would freeze a bubble's clock - a mutex wait is not a durable block.)
		if j%10 < 2 {
			cool := 40 * time.Millisecond
			probeCase := j%10 == 1
			func() {
				cb := leader.NewCircuitBreaker(th, cool)
				pre := th - 1
				if probeCase {
					pre = th // open it, then wait the cooldown out: A is the half-open probe
				}
				for i := 0; i < pre; i++ {
					cb.Call(func() error { return errTransient })
				}
				if probeCase {
					time.Sleep(cool + time.Millisecond)
				}
				start := time.Now()
				var aEnd, bInv time.Duration = -1, -1
				done := make(chan struct{}, 2)
				go func() {
					cb.Call(func() error {
						time.Sleep(8 * time.Millisecond)
						aEnd = time.Since(start)
						return errTransient
					})
					done <- struct{}{}
				}()
				go func() {
					time.Sleep(time.Millisecond)
					cb.Call(func() error {
						bInv = time.Since(start)
						return nil
					})
					done <- struct{}{}
				}()
				<-done
				<-done
				res.Obs["c17.breaker_overlaps"]++
				if bInv >= 0 && aEnd >= 0 && bInv >= aEnd && bInv-aEnd < cool/2 {
					addViol(res, "C17", "breaker-open", "breaker-invokes-while-open:overlapping-callers", fmt.Sprintf("threshold=%d cooldown=%v probe=%v: A's operation failed at +%v and opened the breaker; B's operation (B called at +1ms) was invoked at +%v", th, cool, probeCase, aEnd, bInv))
				}
			}()
		}
	}
	res.Distinct = len(distinct)
}
