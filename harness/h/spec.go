package h

import (
	"time"
)

// Spec is one scenario: a pure function of (seed, class, k). It denotes a family
// of executions (library jitter and goroutine order are not controlled).
type Spec struct {
	Name     string        `json:"name"`
	Class    string        `json:"class"`
	Seed     uint64        `json:"seed"`
	Insts    []InstSpec    `json:"insts"`
	TTL      time.Duration `json:"ttl"` // bucket MaxAge and every instance's TTL
	Lat      Latency       `json:"lat"`
	Watch    WatchPolicy   `json:"watch"`
	Rules    []FaultRule   `json:"rules,omitempty"`
	Breaks   []BreakSpec   `json:"breaks,omitempty"`
	Actions  []Action      `json:"actions"`
	Duration time.Duration `json:"duration"` // run until this virtual time after the last action
	Sample   time.Duration `json:"sample"`   // quiescent sampling period
	Hang     time.Duration `json:"hang,omitempty"`
	// Premises that hold for this spec (decide which oracles apply).
	Benign    bool `json:"benign,omitempty"`     // C02/C07 premise: latency<H/2, no faults, no outsider, no health/conn
	NoPreempt bool `json:"no_preempt,omitempty"` // no takeover-enabled instance
	Prompt    bool `json:"prompt,omitempty"`     // C10 promptness premise (l<=H/20, fault free)
	// PromptAfter: the promptness premise holds from this virtual time on (faults before it)
	PromptAfter time.Duration `json:"prompt_after,omitempty"`
	Tags        []string      `json:"tags,omitempty"`
	// Amplifier: at gofail sites inside the library (see DESIGN §5) sleep a random
	// virtual duration in [0, YieldMax] with probability YieldP.
	YieldP   float64       `json:"yield_p,omitempty"`
	YieldMax time.Duration `json:"yield_max,omitempty"`
	// Reactions run beside the action script: when the breakpoint is hit, the actions are
	// performed at once, at that virtual instant (no sampling, no sleeping).
	Reactions []Reaction `json:"reactions,omitempty"`
}

type Reaction struct {
	Break   string   `json:"break"`
	Actions []Action `json:"actions"`
}

type InstSpec struct {
	Name         string        `json:"name"` // = InstanceID
	Group        string        `json:"group"`
	H            time.Duration `json:"h"`
	ValInterval  time.Duration `json:"val_interval,omitempty"`
	Grace        time.Duration `json:"grace,omitempty"`
	Priority     int           `json:"priority,omitempty"`
	Takeover     bool          `json:"takeover,omitempty"`
	Health       string        `json:"health,omitempty"` // script of h,u,s,S ; "" = none
	HealthOn     bool          `json:"health_on,omitempty"`
	MaxFail      int           `json:"max_fail,omitempty"`
	Conn         bool          `json:"conn,omitempty"`
	BlockPromote bool          `json:"block_promote,omitempty"`
	// PromoteLinger: after its context is done the (blocking) promotion callback keeps
	// running for this long before it returns (a user task that is slow to wind down)
	PromoteLinger time.Duration `json:"promote_linger,omitempty"`
	DemoteDelay   time.Duration `json:"demote_delay,omitempty"`
	// LateCallbacks: OnPromote/OnDemote are not registered before Start but by a later
	// "register" action (possibly in the middle of a term)
	LateCallbacks bool `json:"late_callbacks,omitempty"`
	// StartCtx: Start is given a cancellable context (ended by the "cancelstart" action)
	StartCtx bool `json:"start_ctx,omitempty"`
}

// Action kinds:
//
//	start, stop (Variant), restart (stop then start), crash (permanent partition),
//	partition / heal, output / outdel / outexpire (Val), conn (Val: D|R|C),
//	validate (Val: bg|cancelled|deadline, D; OrDemote), closewatch,
//	waitbreak (Break, D timeout), release (Break), arm (Break), rule (Rule),
//	waitapi (wait for all async api calls of Inst, D timeout), sleep.
type Action struct {
	At       time.Duration `json:"at,omitempty"`    // absolute virtual time (if > now)
	After    time.Duration `json:"after,omitempty"` // relative delay before the action
	Kind     string        `json:"kind"`
	Inst     string        `json:"inst,omitempty"`
	Val      string        `json:"val,omitempty"`
	D        time.Duration `json:"d,omitempty"`
	Break    string        `json:"break,omitempty"`
	Stop     *StopVariant  `json:"stop,omitempty"`
	Rule     *FaultRule    `json:"rule,omitempty"`
	OrDemote bool          `json:"or_demote,omitempty"`
	Sync     bool          `json:"sync,omitempty"`  // run blocking calls on the driver goroutine
	Chain    bool          `json:"chain,omitempty"` // follows the previous action at the same virtual instant
}

type StopVariant struct {
	Plain     bool          `json:"plain,omitempty"` // Stop()
	DeleteKey bool          `json:"delete_key,omitempty"`
	Wait      bool          `json:"wait,omitempty"`
	Timeout   time.Duration `json:"timeout,omitempty"`
	CtxKind   string        `json:"ctx,omitempty"` // none | deadline | cancelmid
	CtxD      time.Duration `json:"ctx_d,omitempty"`
}

func (s *Spec) Inst(name string) *InstSpec {
	for i := range s.Insts {
		if s.Insts[i].Name == name {
			return &s.Insts[i]
		}
	}
	return nil
}

func (s *Spec) HasTag(t string) bool {
	for _, x := range s.Tags {
		if x == t {
			return true
		}
	}
	return false
}
