package h

var fpKinds = map[string]bool{
	"store.apply": true, "flag": true, "cb.promote": true, "cb.demote": true, "api.call": true, "api.return": true,
	"log": true, "conn.notify": true, "health.check": true, "action": true, "store.expire": true, "watch.drop": true,
}

// fingerprints computes the abstracted-trace hash once; per-property triggers
// decide whether the scenario counts as non-trivial for that property.
func (v *View) fingerprints(res *Result) {
	abs := v.abstract(fpKinds)
	fp := fingerprint(abs)
	if len(abs) > 60 {
		res.Sample = append(append([]string{}, abs[:40]...), "...")
	} else {
		res.Sample = abs
	}
	res.FP["all"] = fp
}
