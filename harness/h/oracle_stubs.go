package h

func (v *View) checkC09(res *Result)       {}
func (v *View) checkC03(res *Result)       {}
func (v *View) checkC04(res *Result)       {}
func (v *View) checkC06(res *Result)       {}
func (v *View) checkC10(res *Result)       {}
func (v *View) checkC11(res *Result)       {}
func (v *View) checkC12(res *Result)       {}
func (v *View) checkC13(res *Result)       {}
func (v *View) checkC17rounds(res *Result) {}
