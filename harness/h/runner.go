package h

import (
	"context"
	"fmt"
	"regexp"
	"runtime"
	"sort"
	"strings"
	"sync"
	"sync/atomic"
	"testing"
	"testing/synctest"
	"time"

	leader "github.com/ali-assar/NATS-Leader-Election/leader"
	"github.com/nats-io/nats.go"
	"github.com/prometheus/client_golang/prometheus"
	"go.uber.org/zap"
	"go.uber.org/zap/zapcore"
)

// Progress is bumped on every trace event; the stall watchdog (outside the
// bubble) samples it.
var Progress atomic.Int64

// NapActive counts "nap" actions in progress (read by the watchdog outside the bubble).
var NapActive atomic.Int32

type ctxRec struct {
	id         int
	inst       string
	token      string
	ctx        context.Context
	returned   atomic.Bool
	blocking   bool
	cancelSeen atomic.Bool // the blocking callback observed ctx.Done()
	reported   bool        // final state already sampled once
}

type CtxState struct {
	ID       int    `json:"id"`
	Inst     string `json:"inst"`
	Token    string `json:"token"`
	Done     bool   `json:"done"`
	Returned bool   `json:"returned"`
}

type inst struct {
	r           *Runner
	spec        *InstSpec
	el          leader.Election
	conn        *nats.Conn
	gauge       atomic.Int32
	prom        leader.Metrics // the library's own Prometheus sink on a private registry: every metrics call is passed on to it as well
	inStop      atomic.Int32
	started     atomic.Bool
	hmu         sync.Mutex
	hidx        int
	connQ       chan string
	pending     sync.WaitGroup // async api calls
	npend       atomic.Int32
	startCancel atomic.Pointer[context.CancelFunc]
	prevCancel  atomic.Pointer[context.CancelFunc] // the context of the Start call before the latest one
	napping     atomic.Bool                        // a "nap" reaction is letting virtual time pass while a call of this instance is held
}

type Runner struct {
	Spec        *Spec
	Tr          *Trace
	St          *Store
	insts       map[string]*inst
	order       []*inst
	groups      map[string][]*inst
	mu          sync.Mutex
	ctxs        []*ctxRec
	acts        sync.WaitGroup
	quit        chan struct{}
	valSeq      atomic.Int64
	t           *testing.T
	yieldClient *Client
	ctxSeq      atomic.Int64
}

const Bucket = "leaders"

// ---- provider ----

type provider struct {
	c    *Client
	conn *nats.Conn
	js   atomic.Int32
	kv   atomic.Int32
}

type providerConn struct{ *provider }

func (p *provider) JetStream() (leader.JetStreamContext, error) { p.js.Add(1); return p, nil }
func (p *provider) KeyValue(bucket string) (leader.KeyValue, error) {
	p.kv.Add(1)
	return p.c, nil
}
func (p providerConn) NATSConnection() *nats.Conn { return p.conn }

// ---- logger ----

type recLogger struct{ i *inst }

func (l recLogger) log(level, msg string, fields []zap.Field) {
	enc := zapcore.NewMapObjectEncoder()
	for _, f := range fields {
		f.AddTo(enc)
	}
	m := map[string]string{"level": level}
	for k, v := range enc.Fields {
		switch k {
		case "instance_id", "group", "bucket":
			continue
		}
		m[k] = fmt.Sprint(v)
	}
	l.i.r.add(Event{Kind: "log", Inst: l.i.spec.Name, Msg: msg, Fields: m})
	// the logger is user code: scenarios can hold the library at any of its log lines
	l.i.r.St.Client(l.i.spec.Name).atPhase("log:"+msg, "sink")
}
func (l recLogger) Debug(msg string, f ...zap.Field) { l.log("debug", msg, f) }
func (l recLogger) Info(msg string, f ...zap.Field)  { l.log("info", msg, f) }
func (l recLogger) Warn(msg string, f ...zap.Field)  { l.log("warn", msg, f) }
func (l recLogger) Error(msg string, f ...zap.Field) { l.log("error", msg, f) }
func (l recLogger) Fatal(msg string, f ...zap.Field) { l.log("fatal", msg, f) }

// ---- metrics ----

type recMetrics struct{ i *inst }

func (m recMetrics) SetIsLeader(v float64, l prometheus.Labels) {
	i := m.i
	r := i.r
	flag := v == 1
	i.prom.SetIsLeader(v, l)
	// (the flag event marks term boundaries for the oracles: it is taken when the library
	// makes the call; a slow sink is held afterwards, and only then shows the new value)
	defer func() {
		r.St.Client(i.spec.Name).atPhase(fmt.Sprintf("metric:isleader:%d", int(v)), "sink")
		i.gauge.Store(int32(v))
	}()
	// Instant cross-read: atomically (w.r.t. the store) read the live record and
	// every other instance's claim. The caller holds its own election mutex, so
	// its own flag cannot move meanwhile.
	key := i.spec.Group
	r.St.Lock()
	e := Event{Kind: "flag", Inst: i.spec.Name, Flag: flag}
	if i.el != nil {
		e.Token = i.el.Token()
		e.S = fmt.Sprint(i.el.IsLeader())
	}
	for _, o := range r.groups[i.spec.Group] {
		if o != i && o.el != nil && o.el.IsLeader() {
			e.Others = append(e.Others, o.spec.Name)
		}
	}
	if x := r.St.LiveLocked(key); x != nil {
		e.RecOK = true
		e.RecID, e.RecTok, _ = DecodeIDToken(x.Val)
		e.Rev = x.Seq
	}
	r.add(e)
	r.St.Unlock()
}
func (m recMetrics) SetConnectionStatus(v float64, l prometheus.Labels) {
	m.i.prom.SetConnectionStatus(v, l)
	m.i.r.add(Event{Kind: "gauge.conn", Inst: m.i.spec.Name, N: int64(v)})
}
func (m recMetrics) IncTransitions(l prometheus.Labels) {
	// a metrics sink is user code and may be slow: scenarios can hold the call here
	m.i.r.St.Client(m.i.spec.Name).atPhase("metric:transition:"+l["to_state"], "sink")
	m.i.r.add(Event{Kind: "transition", Inst: m.i.spec.Name, From: l["from_state"], To: l["to_state"]})
	m.i.prom.IncTransitions(l)
}
func (m recMetrics) IncFailures(l prometheus.Labels) {
	m.i.r.add(Event{Kind: "metric", Inst: m.i.spec.Name, S: "failure:" + l["error_type"]})
	m.i.prom.IncFailures(l)
}
func (m recMetrics) IncAcquireAttempts(l prometheus.Labels) {
	m.i.r.add(Event{Kind: "metric", Inst: m.i.spec.Name, S: "acquire:" + l["status"]})
	m.i.prom.IncAcquireAttempts(l)
}
func (m recMetrics) IncTokenValidationFailures(l prometheus.Labels) {
	m.i.r.add(Event{Kind: "metric", Inst: m.i.spec.Name, S: "tokenfail"})
	m.i.prom.IncTokenValidationFailures(l)
}
func (m recMetrics) ObserveHeartbeatDuration(d time.Duration, l prometheus.Labels) {
	m.i.prom.ObserveHeartbeatDuration(d, l)
}
func (m recMetrics) ObserveLeaderDuration(d time.Duration, l prometheus.Labels) {
	m.i.r.St.Client(m.i.spec.Name).atPhase("metric:leaderdur", "sink")
	m.i.r.add(Event{Kind: "metric", Inst: m.i.spec.Name, S: "leaderdur", N: int64(d)})
	m.i.prom.ObserveLeaderDuration(d, l)
}

// ---- health ----

type scriptHealth struct{ i *inst }

func (h scriptHealth) Check(ctx context.Context) bool {
	i := h.i
	i.hmu.Lock()
	idx := i.hidx
	i.hidx++
	i.hmu.Unlock()
	c := byte('h')
	if idx < len(i.spec.Health) {
		c = i.spec.Health[idx]
	}
	dl := int64(-1)
	if d, ok := ctx.Deadline(); ok {
		dl = int64(time.Until(d))
	}
	i.r.add(Event{Kind: "health.check", Inst: i.spec.Name, N: dl, S: string(c), Call: idx})
	i.r.St.Client(i.spec.Name).atPhase("health:"+string(c), "check") // (scenarios can hold a check in flight)
	switch c {
	case 'u':
		return false
	case 's', 'S':
		select {
		case <-ctx.Done():
		case <-i.r.quit:
		}
		return c == 'S'
	}
	return true
}

// ---- runner ----

func (r *Runner) add(e Event) {
	r.Tr.Add(e)
}

func newRunner(t *testing.T, spec *Spec) *Runner {
	tr := NewTrace()
	r := &Runner{Spec: spec, Tr: tr, insts: map[string]*inst{}, groups: map[string][]*inst{}, quit: make(chan struct{}), t: t}
	r.St = NewStore(tr, spec.TTL, spec.Seed, spec.Lat, spec.Watch)
	if spec.Hang > 0 {
		r.St.hang = spec.Hang
	}
	for _, ru := range spec.Rules {
		r.St.AddRule(ru)
	}
	for _, b := range spec.Breaks {
		r.St.AddBreak(b)
	}
	r.St.OnChange = r.onStoreChange
	r.yieldClient = r.St.Client("*")
	for k := range spec.Insts {
		is := &spec.Insts[k]
		i := &inst{r: r, spec: is}
		i.gauge.Store(-1)
		i.prom = leader.NewPrometheusMetrics(prometheus.NewRegistry())
		r.insts[is.Name] = i
		r.order = append(r.order, i)
		r.groups[is.Group] = append(r.groups[is.Group], i)
	}
	return r
}

// onStoreChange runs under the store mutex at every record change / expiry:
// every instance of the group that claims leadership must be named by the live
// record with its token (C02 ii). Only mismatches are logged.
func (r *Runner) onStoreChange(key, why string) {
	x := r.St.LiveLocked(key)
	var id, tok string
	if x != nil {
		id, tok, _ = DecodeIDToken(x.Val)
	}
	for _, i := range r.groups[key] {
		if i.el == nil {
			continue
		}
		t1 := i.el.Token()
		if !i.el.IsLeader() {
			continue
		}
		t2 := i.el.Token()
		if t1 != t2 {
			continue
		}
		if x == nil || id != i.spec.Name || tok != t1 {
			r.add(Event{Kind: "claim.mismatch", Inst: i.spec.Name, Key: key, S: why, Token: t1, RecOK: x != nil, RecID: id, RecTok: tok})
		} else {
			r.add(Event{Kind: "claim.ok", Inst: i.spec.Name, Key: key, S: why})
		}
	}
}

func (r *Runner) build(i *inst) error {
	is := i.spec
	p := &provider{c: r.St.Client(is.Name)}
	cfg := leader.ElectionConfig{
		Bucket: Bucket, Group: is.Group, InstanceID: is.Name,
		TTL: r.Spec.TTL, HeartbeatInterval: is.H,
		ValidationInterval: is.ValInterval, DisconnectGracePeriod: is.Grace,
		Priority: is.Priority, AllowPriorityTakeover: is.Takeover,
		MaxConsecutiveFailures: is.MaxFail,
		Logger:                 recLogger{i}, Metrics: recMetrics{i},
	}
	if is.HealthOn {
		cfg.HealthChecker = scriptHealth{i}
	}
	var jp leader.JetStreamProvider = p
	if is.Conn {
		i.conn = &nats.Conn{}
		p.conn = i.conn
		jp = providerConn{p}
	}
	el, err := leader.NewElection(jp, cfg)
	if err != nil {
		return err
	}
	i.el = el
	if !is.LateCallbacks {
		r.register(i)
	}
	if is.Conn {
		i.connQ = make(chan string, 64)
		r.acts.Add(1)
		go func() {
			defer r.acts.Done()
			for {
				select {
				case <-r.quit:
					return
				case ev := <-i.connQ:
					r.fireConn(i, ev)
				}
			}
		}()
	}
	return nil
}

// register installs the recording callbacks (at build time, or later through the
// "register" action for instances with LateCallbacks).
func (r *Runner) register(i *inst) {
	is := i.spec
	el := i.el
	r.add(Event{Kind: "callbacks.registered", Inst: is.Name})
	el.OnPromote(func(ctx context.Context, token string) {
		// (the entry is reported first: nothing slow before it)
		id := int(r.ctxSeq.Add(1))
		r.add(Event{Kind: "cb.promote", Inst: is.Name, Token: token, Ctx: id, S: fmt.Sprint(ctx.Err() != nil)})
		rec := &ctxRec{inst: is.Name, token: token, ctx: ctx, blocking: is.BlockPromote, id: id}
		r.mu.Lock()
		r.ctxs = append(r.ctxs, rec)
		r.mu.Unlock()
		if is.BlockPromote {
			select {
			case <-ctx.Done():
				rec.cancelSeen.Store(true)
				r.add(Event{Kind: "cb.promote.ctxdone", Inst: is.Name, Token: token, Ctx: rec.id})
				if is.PromoteLinger > 0 {
					select {
					case <-time.After(is.PromoteLinger):
					case <-r.quit:
					}
				}
			case <-r.quit:
			}
		}
		rec.returned.Store(true)
		r.add(Event{Kind: "cb.promote.return", Inst: is.Name, Token: token, Ctx: rec.id})
	})
	el.OnDemote(func() {
		r.add(Event{Kind: "cb.demote", Inst: is.Name})
		if is.DemoteDelay > 0 {
			time.Sleep(is.DemoteDelay)
		}
		r.add(Event{Kind: "cb.demote.return", Inst: is.Name})
	})
}

func (r *Runner) fireConn(i *inst, ev string) {
	r.add(Event{Kind: "conn.notify", Inst: i.spec.Name, S: ev})
	switch ev {
	case "D":
		if f := i.conn.Opts.DisconnectedCB; f != nil {
			f(i.conn)
		}
	case "R":
		if f := i.conn.Opts.ReconnectedCB; f != nil {
			f(i.conn)
		}
	case "C":
		if f := i.conn.Opts.ClosedCB; f != nil {
			f(i.conn)
		}
	}
	r.add(Event{Kind: "conn.notify.return", Inst: i.spec.Name, S: ev})
}

func (r *Runner) async(i *inst, sync bool, f func()) {
	if sync {
		f()
		return
	}
	i.npend.Add(1)
	r.acts.Add(1)
	go func() {
		defer r.acts.Done()
		defer i.npend.Add(-1)
		f()
	}()
}

func (r *Runner) doStart(i *inst) {
	r.add(Event{Kind: "api.call", Inst: i.spec.Name, API: "Start"})
	ctx := context.Background()
	if i.spec.StartCtx {
		// the application hands Start a context of its own (signal.NotifyContext and the like)
		// which the "cancelstart" action ends later
		var cancel context.CancelFunc
		ctx, cancel = context.WithCancel(ctx)
		i.prevCancel.Store(i.startCancel.Load())
		i.startCancel.Store(&cancel)
	}
	err := i.el.Start(ctx)
	if err == nil {
		i.started.Store(true)
	}
	r.add(Event{Kind: "api.return", Inst: i.spec.Name, API: "Start", Ret: errStr(err)})
}

func errStr(err error) string {
	if err == nil {
		return "ok"
	}
	return "err:" + err.Error()
}

func (r *Runner) doStop(i *inst, v *StopVariant, teardown bool) {
	name := "StopWithContext"
	if v == nil || v.Plain {
		name = "Stop"
	}
	desc := ""
	if v != nil && !v.Plain {
		desc = fmt.Sprintf("del=%v wait=%v to=%v ctx=%s/%v", v.DeleteKey, v.Wait, v.Timeout, v.CtxKind, v.CtxD)
	}
	if teardown {
		desc += " teardown"
	}
	i.inStop.Add(1)
	r.add(Event{Kind: "api.call", Inst: i.spec.Name, API: name, S: desc, Flag: v != nil && v.DeleteKey})
	var err error
	if name == "Stop" {
		err = i.el.Stop()
	} else {
		ctx := context.Background()
		var cancel context.CancelFunc = func() {}
		switch v.CtxKind {
		case "deadline":
			ctx, cancel = context.WithTimeout(ctx, v.CtxD)
		case "cancelmid":
			ctx, cancel = context.WithCancel(ctx)
			c := cancel
			tm := time.AfterFunc(v.CtxD, c)
			defer tm.Stop()
		}
		err = i.el.StopWithContext(ctx, leader.StopOptions{DeleteKey: v.DeleteKey, WaitForDemote: v.Wait, Timeout: v.Timeout})
		cancel()
	}
	// claim check at return of a stop call (C02 ii)
	r.St.Lock()
	re := Event{Kind: "api.return", Inst: i.spec.Name, API: name, Ret: errStr(err), S: desc, Flag: i.el.IsLeader()}
	if x := r.St.LiveLocked(i.spec.Group); x != nil {
		re.RecOK = true
		re.RecID, re.RecTok, _ = DecodeIDToken(x.Val)
		re.Rev = x.Seq
	}
	r.add(re)
	r.St.Unlock()
	i.inStop.Add(-1)
}

func (r *Runner) doValidate(i *inst, a *Action) {
	ctx := context.Background()
	var valID int64
	var cancel context.CancelFunc = func() {}
	switch a.Val {
	case "cancelled":
		ctx, cancel = context.WithCancel(ctx)
		cancel()
	case "deadline":
		ctx, cancel = context.WithTimeout(ctx, a.D)
	case "cancelmid", "deadlinecancel":
		// the application gives up on the call after a.D: a plain cancellable context, or one
		// that also carries a deadline far in the future (a request context with a budget)
		if a.Val == "deadlinecancel" {
			ctx, cancel = context.WithTimeout(ctx, 10*time.Minute)
		} else {
			ctx, cancel = context.WithCancel(ctx)
		}
		id := r.valSeq.Add(1)
		cc := cancel
		go func() {
			time.Sleep(a.D)
			r.add(Event{Kind: "validate.ctx.end", Inst: i.spec.Name, N: id})
			cc()
		}()
		valID = id
	}
	defer cancel()
	api := "ValidateToken"
	if a.OrDemote {
		api = "ValidateTokenOrDemote"
	}
	pre := i.el.Token()
	preL := i.el.IsLeader()
	r.add(Event{Kind: "api.call", Inst: i.spec.Name, API: api, S: a.Val, Token: pre, Flag: preL, N: valID})
	var ok bool
	var err error
	if a.OrDemote {
		ok = i.el.ValidateTokenOrDemote(ctx)
	} else {
		ok, err = i.el.ValidateToken(ctx)
	}
	ret := fmt.Sprint(ok)
	e := Event{Kind: "api.return", Inst: i.spec.Name, API: api, Ret: ret, S: a.Val, Flag: i.el.IsLeader(), Token: i.el.Token()}
	if err != nil {
		e.Err = err.Error()
	}
	r.add(e)
}

// sample takes a quiescent snapshot of every instance.
func (r *Runner) sample(tag string) {
	synctest.Wait()
	for _, i := range r.order {
		if i.el == nil || i.napping.Load() {
			continue
		}
		st := i.el.Status()
		sn := &Snapshot{State: st.State, IsLeader: st.IsLeader, LeaderID: st.LeaderID, Token: st.Token, Revision: st.Revision,
			APILeader: i.el.IsLeader(), APIToken: i.el.Token(), APILID: i.el.LeaderID(), Gauge: int(i.gauge.Load()),
			InStop: i.inStop.Load() > 0}
		r.add(Event{Kind: "quiescent", Inst: i.spec.Name, Snap: sn, S: tag})
	}
	r.mu.Lock()
	cs := append([]*ctxRec(nil), r.ctxs...)
	r.mu.Unlock()
	for _, c := range cs {
		if !c.blocking || c.reported {
			continue
		}
		if c.returned.Load() {
			c.reported = true
		}
		r.add(Event{Kind: "ctx.state", Inst: c.inst, Ctx: c.id, Token: c.token, Flag: c.cancelSeen.Load() || (!c.returned.Load() && c.ctx.Err() != nil), OK: c.returned.Load()})
	}
	// record liveness at the sample
	for g := range r.groups {
		x := r.St.LiveRecord(g)
		e := Event{Kind: "record", Key: g}
		if x != nil {
			e.RecOK = true
			e.RecID, e.RecTok, _ = DecodeIDToken(x.Val)
			e.Rev = x.Seq
			e.PrevBy = x.By
		}
		r.add(e)
	}
}

func (r *Runner) sleepSampling(d time.Duration) {
	step := r.Spec.Sample
	if step <= 0 {
		step = 250 * time.Millisecond
	}
	for d > 0 {
		s := step
		if d < s {
			s = d
		}
		time.Sleep(s)
		d -= s
		r.sample("tick")
	}
}

func (r *Runner) run() {
	spec := r.Spec
	for _, i := range r.order {
		if err := r.build(i); err != nil {
			r.add(Event{Kind: "harness.error", Inst: i.spec.Name, S: "build: " + err.Error()})
			return
		}
	}
	for k := range spec.Reactions {
		re := &spec.Reactions[k]
		ch := r.St.HitChan(re.Break)
		if ch == nil {
			continue
		}
		r.acts.Add(1)
		go func() {
			defer r.acts.Done()
			select {
			case <-ch:
			case <-r.quit:
				return
			}
			r.add(Event{Kind: "break.reached", S: re.Break})
			for j := range re.Actions {
				r.act(&re.Actions[j])
			}
		}()
	}
	for k := range spec.Actions {
		a := &spec.Actions[k]
		now := r.Tr.Now()
		if a.After > 0 {
			r.sleepSampling(a.After)
		} else if a.At > now {
			r.sleepSampling(a.At - now)
		}
		r.act(a)
	}
	r.sleepSampling(spec.Duration)
	r.sample("end")
	r.teardown()
}

func (r *Runner) act(a *Action) {
	i := r.insts[a.Inst]
	r.add(Event{Kind: "action", Inst: a.Inst, S: a.Kind, Msg: a.Val})
	switch a.Kind {
	case "start":
		r.async(i, a.Sync, func() { r.doStart(i) })
	case "stop":
		r.async(i, a.Sync, func() { r.doStop(i, a.Stop, false) })
	case "restart":
		r.async(i, a.Sync, func() { r.doStop(i, a.Stop, false); r.doStart(i) })
	case "cancelstart":
		if i != nil {
			if a.Val == "previous" {
				// the context of an EARLIER run of this election object ends (its deferred cancel,
				// its time-out): that run was stopped long ago, nothing of the current run is concerned
				if c := i.prevCancel.Load(); c != nil {
					(*c)()
					r.add(Event{Kind: "start.ctx.cancelled.previous", Inst: a.Inst})
				}
			} else if c := i.startCancel.Load(); c != nil {
				(*c)()
				r.add(Event{Kind: "start.ctx.cancelled", Inst: a.Inst})
			}
		}
	case "stopleader":
		// stop whichever instance of the group (a.Inst carries the key) leads right now
		for _, x := range r.groups[a.Inst] {
			if x.el != nil && x.el.IsLeader() {
				x := x
				r.add(Event{Kind: "action", Inst: x.spec.Name, S: "stop", Msg: "stopleader"})
				r.async(x, a.Sync, func() { r.doStop(x, a.Stop, false) })
				break
			}
		}
	case "startstopped":
		for _, x := range r.groups[a.Inst] {
			if x.el != nil && x.el.Status().State == leader.StateStopped {
				x := x
				r.add(Event{Kind: "action", Inst: x.spec.Name, S: "start", Msg: "startstopped"})
				r.async(x, a.Sync, func() { r.doStart(x) })
			}
		}
	case "crash":
		r.St.SetPartition(a.Inst, true)
		r.add(Event{Kind: "crash", Inst: a.Inst})
	case "partition":
		r.St.SetPartition(a.Inst, true)
		r.add(Event{Kind: "partition", Inst: a.Inst, Flag: true})
	case "heal":
		r.St.SetPartition(a.Inst, false)
		r.add(Event{Kind: "partition", Inst: a.Inst, Flag: false})
	case "output":
		val := a.Val
		if strings.Contains(val, "@OWNTOKEN@") {
			tok := "none"
			if x := r.St.LiveRecord(a.Inst); x != nil {
				if _, t, _ := DecodeIDToken(x.Val); t != "" {
					tok = t
				}
			}
			val = strings.ReplaceAll(val, "@OWNTOKEN@", tok)
		}
		r.St.OutsidePut(a.Inst, []byte(val)) // Inst carries the key (group)
	case "outdel":
		r.St.OutsideDelete(a.Inst)
	case "outexpire":
		r.St.OutsideExpire(a.Inst)
	case "outreset":
		r.St.OutsideReset(a.Inst)
	case "conn":
		if i != nil && i.connQ != nil {
			for _, c := range a.Val {
				i.connQ <- string(c)
			}
		}
	case "validate":
		aa := *a
		r.async(i, a.Sync, func() { r.doValidate(i, &aa) })
	case "closewatch":
		n := r.St.CloseWatchers(a.Inst)
		r.add(Event{Kind: "watch.closed", Inst: a.Inst, N: int64(n)})
	case "arm":
		r.St.Arm(a.Break)
	case "waitbreak":
		ch := r.St.HitChan(a.Break)
		if ch != nil {
			d := a.D
			if d <= 0 {
				d = 30 * time.Second
			}
			tm := time.NewTimer(d)
			select {
			case <-ch:
				tm.Stop()
				r.add(Event{Kind: "break.reached", S: a.Break})
			case <-tm.C:
				r.add(Event{Kind: "break.timeout", S: a.Break})
			}
		}
	case "release":
		r.St.Release(a.Break)
	case "rule":
		if a.Rule != nil {
			r.St.AddRule(*a.Rule)
		}
	case "waitapi":
		d := a.D
		if d <= 0 {
			d = 60 * time.Second
		}
		dead := time.Now().Add(d)
		for i.npend.Load() > 0 && time.Now().Before(dead) {
			time.Sleep(time.Millisecond)
		}
		r.add(Event{Kind: "waitapi.done", Inst: a.Inst, N: int64(i.npend.Load())})
	case "spin":
		// real (not virtual) time for the other goroutines of the bubble to run as far as
		// they can: used while a goroutine is held inside a library critical section, where
		// virtual time cannot advance (a sync.Mutex wait is not a durable block)
		n := int(a.D / time.Microsecond)
		if n <= 0 {
			n = 5000
		}
		for k := 0; k < n; k++ {
			runtime.Gosched()
		}
	case "nap":
		// let virtual time pass while a user-code call of the instance is being held. The
		// instance is not sampled meanwhile (Status() would wait for the election mutex if the
		// held call sits inside a critical section, and a mutex wait freezes the bubble's
		// clock). If the clock freezes all the same - another goroutine of the instance wants
		// that mutex - the watchdog outside the bubble abandons the scenario after a moment.
		if i != nil {
			i.napping.Store(true)
		}
		NapActive.Add(1)
		r.add(Event{Kind: "nap", Inst: a.Inst, N: int64(a.D)})
		time.Sleep(a.D)
		NapActive.Add(-1)
		if i != nil {
			i.napping.Store(false)
		}
	case "sleep":
	case "sample":
		r.sample("action")
	case "register":
		if i != nil && i.el != nil {
			r.register(i)
		}
	}
}

func (r *Runner) teardown() {
	r.add(Event{Kind: "teardown"})
	var wg sync.WaitGroup
	for _, i := range r.order {
		if i.el == nil || !i.started.Load() {
			continue
		}
		if i.el.Status().State == leader.StateStopped {
			continue
		}
		wg.Add(1)
		go func(i *inst) {
			defer wg.Done()
			r.doStop(i, nil, true)
		}(i)
	}
	r.St.ReleaseAll()
	for _, i := range r.order {
		r.St.SetPartition(i.spec.Name, false)
	}
	wg.Wait()
	var linger time.Duration
	for _, i := range r.order {
		if i.spec.PromoteLinger > linger {
			linger = i.spec.PromoteLinger // user callbacks still winding down are not library leaks
		}
	}
	// (store calls that were in flight when the last stop call returned take up to two latency
	// legs to come back - with heartbeat intervals of a minute that is more than the fixed margin)
	time.Sleep(r.St.hang + 7*time.Second + linger + 4*(r.Spec.Lat.Max+r.Spec.Lat.SpikeMax))
	synctest.Wait()
	r.sample("final")
	lib, rep := Census()
	r.add(Event{Kind: "final", N: int64(len(lib)), S: strings.Join(lib, " | "), Call: rep})
	// watches the store handed out that nobody stopped (every instance has been stopped by now)
	ow := r.St.OpenWatchers()
	for _, i := range r.order {
		if n := ow[i.spec.Name]; n > 0 {
			r.add(Event{Kind: "final.watchers", Inst: i.spec.Name, N: int64(n)})
		}
	}
	close(r.quit)
	r.St.Close()
	r.acts.Wait()
}

var libFrame = regexp.MustCompile(`NATS-Leader-Election/leader\.([^\s(]*\(\*?[A-Za-z]+\)\.[A-Za-z0-9_.]+|[A-Za-z0-9_.]+)`)

// Census returns, for every goroutine with library frames, its innermost
// library function, and the maximum number of times one library function
// appears in one stack (recursion depth indicator).
func Census() (lib []string, maxRepeat int) {
	buf := make([]byte, 1<<20)
	for {
		n := runtime.Stack(buf, true)
		if n < len(buf) {
			buf = buf[:n]
			break
		}
		buf = make([]byte, 2*len(buf))
	}
	return CensusOf(string(buf))
}

func CensusOf(dump string) (lib []string, maxRepeat int) {
	for _, g := range strings.Split(dump, "\n\n") {
		ms := libFrame.FindAllString(g, -1)
		if len(ms) == 0 {
			continue
		}
		// ignore "created by" only matches: require a real frame line
		lines := strings.Split(g, "\n")
		first := ""
		cnt := map[string]int{}
		for _, ln := range lines {
			if strings.HasPrefix(ln, "created by") || strings.HasPrefix(ln, "\t") || strings.HasPrefix(ln, "goroutine ") {
				continue
			}
			if m := libFrame.FindString(ln); m != "" {
				if first == "" {
					first = m
				}
				cnt[m]++
			}
		}
		if first == "" {
			continue
		}
		hdr := lines[0]
		state := ""
		if a := strings.Index(hdr, "["); a >= 0 {
			state = hdr[a:]
		}
		lib = append(lib, strings.TrimPrefix(first, "NATS-Leader-Election/leader.")+state)
		for _, c := range cnt {
			if c > maxRepeat {
				maxRepeat = c
			}
		}
	}
	sort.Strings(lib)
	return
}

// yield policy of the scenario currently running (one bubble at a time per process)
var curRunner atomic.Pointer[Runner]

// LeadersNow returns the instances of the running scenario that report leadership right now
// (atomic reads; for the stall watchdog, which runs outside the bubble).
func LeadersNow() []string {
	r := curRunner.Load()
	if r == nil {
		return nil
	}
	var out []string
	for _, i := range r.order {
		if i.el != nil && i.el.IsLeader() {
			out = append(out, i.spec.Name)
		}
	}
	return out
}

// YieldHook is installed as leader.VerifYield by the sim engine.
func YieldHook(site string) {
	if site == "becomeLeaderPublishing" {
		// inside becomeLeader's critical section (flag up, token not yet): only the real-time
		// engine does anything there. In a bubble a goroutine may not be parked or delayed
		// under a library mutex - waiters on a mutex are not durably blocked.
		return
	}
	r := curRunner.Load()
	if r == nil {
		return
	}
	// a breakpoint may be placed on a yield site (client "*", op "yield:<site>", phase "site"):
	// the goroutine is parked right there, inside the library, until the driver releases it
	r.yieldClient.atPhase("yield:"+site, "site")
	if site == "promoteGoroutineEntry" {
		// (recorded with the goroutine's id: the C08 oracle wants to know whether the goroutine
		// that delivers a term's OnPromote was already running when that term's OnDemote was entered)
		r.add(Event{Kind: "site", S: site})
	}
	if r.Spec.YieldP <= 0 || site == "promoteGoroutineEntry" || site == "stopBetweenReadAndDelete" || site == "demoteGoroutineEntry" {
		// (these two sites are only ever used with breakpoints: a random delay before the
		// promotion callback would make every quiescent sample in between look like a
		// missing callback, and the other one sits inside a known, recorded window)
		return
	}
	r.St.mu.Lock()
	hit := r.St.rng.Float64() < r.Spec.YieldP
	var d time.Duration
	if hit && r.Spec.YieldMax > 0 {
		d = time.Duration(r.St.rng.Int64N(int64(r.Spec.YieldMax) + 1))
	}
	r.St.mu.Unlock()
	if !hit {
		return
	}
	r.add(Event{Kind: "yield", S: site, N: int64(d)})
	if d > 0 {
		select {
		case <-time.After(d):
		case <-r.quit:
		}
	} else {
		runtime.Gosched()
	}
}

// RunSpec executes one scenario inside a synctest bubble. done is invoked with
// the trace inside the bubble, before the bubble exits (synctest panics at exit
// if blocked goroutines remain; the result must have been written by then).
func RunSpec(t *testing.T, spec *Spec, done func(events []Event)) {
	synctest.Test(t, func(t *testing.T) {
		r := newRunner(t, spec)
		curRunner.Store(r)
		r.run()
		curRunner.Store(nil)
		done(r.Tr.Copy())
	})
}
