package h

import (
	"fmt"
	"sort"
	"strconv"
	"strings"
	"time"
)

const (
	periodicCheck = 500 * time.Millisecond
	jitterMaxD    = 100 * time.Millisecond
	jitterMinD    = 10 * time.Millisecond
)

func opTimeout(h time.Duration) time.Duration {
	t := h / 2
	if t < time.Second {
		t = time.Second
	}
	return t
}

type ival struct{ a, b time.Duration }

// slack returns the total delay the harness injected at in-library yield sites
// (amplifier, DESIGN §5) by yields that began in [a-YieldMax, b]. Timing bounds
// are extended by it: the bounds speak of store latency, not of preemption the
// harness itself manufactures.
func (v *View) slack(a, b time.Duration) time.Duration {
	var sum time.Duration
	if v.Spec.YieldP > 0 {
		for _, e := range v.yields {
			if e.VT >= a-v.Spec.YieldMax && e.VT <= b {
				sum += time.Duration(e.N)
			}
		}
	}
	// user code (logger, metrics sink, health checker) held by the harness for a stretch of
	// virtual time delays whatever the library was doing there, just like a yield
	for _, e := range v.holds {
		if e.VT+time.Duration(e.N) >= a && e.VT <= b {
			sum += time.Duration(e.N)
		}
	}
	return sum
}

// extend: a deadline dl for something that began at a, extended by the harness-made delays
// (yields, held user-code calls) in the window - iterated, because the delays inside the
// extension count as well.
func (v *View) extend(a, dl time.Duration) time.Duration {
	base := dl
	for i := 0; i < 10; i++ {
		n := base + v.slack(a, dl)
		if n == dl {
			break
		}
		dl = n
	}
	return dl
}

// faultIvals: per client, intervals during which a fault acted on it (faulted
// store calls, partitions/crashes, watch closures as instants).
func (v *View) faultIvals() map[string][]ival {
	out := map[string][]ival{}
	endVT := v.lastVT()
	lim := 2*v.maxLeg() + time.Millisecond
	for _, c := range v.CallsL {
		b := c.ReturnVT
		if c.Return < 0 {
			b = endVT
		}
		// a call held by a harness breakpoint (or otherwise slower than two legs) is a
		// fault on that client just like an injected error
		if c.Fault == "" && b-c.IssueVT <= lim {
			continue
		}
		out[c.Inst] = append(out[c.Inst], ival{c.IssueVT, b})
	}
	partOn := map[string]time.Duration{}
	for _, e := range v.Ev {
		switch e.Kind {
		case "partition":
			if e.Flag {
				partOn[e.Inst] = e.VT
			} else if a, ok := partOn[e.Inst]; ok {
				out[e.Inst] = append(out[e.Inst], ival{a, e.VT})
				delete(partOn, e.Inst)
			}
		case "crash":
			partOn[e.Inst] = e.VT
		case "watch.closed":
			out[e.Inst] = append(out[e.Inst], ival{e.VT, e.VT})
		case "teardown":
			for k, a := range partOn {
				out[k] = append(out[k], ival{a, e.VT + time.Hour})
				delete(partOn, k)
			}
		}
	}
	for k, a := range partOn {
		out[k] = append(out[k], ival{a, endVT + time.Hour})
	}
	return out
}

func (v *View) lastVT() time.Duration {
	if len(v.Ev) == 0 {
		return 0
	}
	return v.Ev[len(v.Ev)-1].VT
}

func overlaps(ivs []ival, a, b time.Duration) bool {
	for _, i := range ivs {
		if i.a <= b && i.b >= a {
			return true
		}
	}
	return false
}

// ---------------------------------------------------------------------------
// C09 — Stop is final, clean and prompt
// ---------------------------------------------------------------------------

func (v *View) checkC09(res *Result) {
	maxLeg := v.maxLeg()
	for _, a := range v.APIs {
		if !a.IsStop() {
			continue
		}
		res.Obs["c09.stop_calls"]++
		if a.Ret < 0 {
			if !a.Teardown {
				res.viol("C09", "stop-hangs", "stop-never-returned:"+a.API, fmt.Sprintf("%s %s(%s) called at %v never returned", a.Inst, a.API, a.Desc, a.CallVT), a.Call)
			}
			continue
		}
		// in-flight store call of the same instance at the moment of the stop call
		for _, c := range v.CallsL {
			if c.Inst == a.Inst && c.Issue < a.Call && (c.Return < 0 || c.Return > a.Call) {
				ph := "req"
				if c.Apply >= 0 && c.Apply < a.Call {
					ph = "resp"
				}
				res.Obs["c09.inflight."+c.Op+"."+ph]++
			}
		}
		// (minus what the harness itself added inside the call: yields at in-library sites and
		// calls into user code - the logger, the metrics sink - held for a stretch of virtual time)
		dur := a.RetVT - a.CallVT - v.slack(a.CallVT, a.RetVT)
		is := v.instSpec(a.Inst)
		dd := time.Duration(0)
		if is != nil {
			dd = is.DemoteDelay
		}
		if a.API == "Stop" {
			if dur > 5*time.Second+dd {
				res.viol("C09", "stop-slow", "stop-exceeds-5s", fmt.Sprintf("%s Stop took %v", a.Inst, dur), a.Ret)
			}
		} else {
			to := stopTimeout(a.Desc)
			if dur > to+4*maxLeg+time.Millisecond {
				cl := "stopctx-exceeds-timeout"
				res.viol("C09", "stop-slow", cl+":"+boolStr(strings.Contains(a.Desc, "wait=true"), "wait", "nowait"), fmt.Sprintf("%s StopWithContext(%s) took %v, time-out %v", a.Inst, a.Desc, dur, to), a.Ret)
			}
		}
		if a.Result != "ok" {
			res.Obs["c09.stop_failed"]++
			continue
		}
		res.Obs["c09.stop_ok"]++
		// interval until the next Start call
		// (a Start issued while the stop call was still running makes the outcome a
		// race between the two calls; the finality clauses speak of "after it returns")
		end := len(v.Ev)
		for _, b := range v.APIs {
			if b.Inst == a.Inst && b.API == "Start" && b.Call > a.Call && b.Result == "ok" {
				end = b.Call
				break
			}
		}
		if end < a.Ret || v.startDuring(a) {
			res.Obs["c09.start_during_stop"]++
			continue
		}
		for j := a.Ret + 1; j < end; j++ {
			e := v.Ev[j]
			if e.Inst != a.Inst {
				continue
			}
			switch e.Kind {
			case "flag":
				if e.Flag {
					res.viol("C09", "leader-after-stop", "leader-after-stop", fmt.Sprintf("%s reports leadership at %v after %s returned at %v", a.Inst, e.VT, a.API, a.RetVT), j)
				}
			case "cb.promote":
				res.viol("C09", "promote-after-stop", "promote-after-stop", fmt.Sprintf("%s promotion callback at %v after %s returned at %v", a.Inst, e.VT, a.API, a.RetVT), j)
			case "store.issue":
				site := v.siteBefore(j, e.G)
				if site == "-" && e.VT == a.CallVT {
					// Issued at the very virtual instant at which the stop call was made, by a
					// goroutine the harness never parked or delayed in between: it was already
					// past its "is the run over?" test when the stop call cancelled the run, and
					// reached the store a few instructions later, after the call had returned -
					// a pure scheduling race inside one instant (the recorded check-then-act
					// window of the heartbeat's refresh goroutine). A goroutine that the harness
					// held across the stop call, or an operation issued later, is not that.
					held := false
					for i := a.Call; i < j; i++ {
						if x := v.Ev[i]; x.G == e.G && (x.Kind == "break.hit" || x.Kind == "yield" || x.Kind == "break.release") {
							held = true
							break
						}
					}
					if !held {
						site = "same-instant-unheld"
					}
				}
				res.viol("C09", "store-op-after-stop", "store-op-after-stop:"+e.Op+":"+site, fmt.Sprintf("%s issued %s at %v after %s returned at %v (%s)", a.Inst, e.Op, e.VT, a.API, a.RetVT, site), j)
			case "transition":
				if e.To != "STOPPED" {
					res.viol("C09", "transition-after-stop", "transition-after-stop:"+e.To, fmt.Sprintf("%s moved to %s after %s returned", a.Inst, e.To, a.API), j)
				}
			}
		}
		// DeleteKey: the record the stopper owned at the call is gone at the return
		if a.API == "StopWithContext" && a.DelKey {
			if t := v.termAt(a.Inst, a.Call-1); t != nil {
				owned := v.ownsLiveAt(a.Inst, t.Token, a.Call)
				if t.Down >= 0 && t.Cause != "stop" && t.Cause != "teardown" {
					// another demotion path ended the term while the stop call was waiting for
					// the election mutex: the call stopped a follower, which deletes nothing
					owned = false
					res.Obs["c09.deletekey_term_ended_concurrently"]++
				}
				if t.Down >= 0 && v.Ev[t.Down].G != a.G {
					// ANOTHER stop call of the application, already under way when this one was
					// issued, ended the term (a plain Stop, say, which deletes nothing): this call
					// stopped a stopped election
					for _, b := range v.APIs {
						if b != a && b.Inst == a.Inst && b.IsStop() && b.Call < a.Call && (b.Ret < 0 || b.Ret > a.Call) && b.G == v.Ev[t.Down].G {
							owned = false
							res.Obs["c09.deletekey_term_ended_by_other_stop_call"]++
						}
					}
				}
				// (the clause presupposes a store that answers the shutdown's own read and
				// delete: a fault injected into one of them is C03/C06 territory)
				for _, c := range v.CallsL {
					if c.Inst == a.Inst && (c.Op == "Get" || c.Op == "Delete") && c.Issue > a.Call && c.Issue < a.Ret && (c.Fault != "" || c.Apply < 0) {
						owned = false
						res.Obs["c09.deletekey_store_fault"]++
						break
					}
				}
				if owned {
					res.Obs["c09.deletekey_owner"]++
					if a.RecOK && a.RecID == a.Inst {
						res.viol("C09", "deletekey", "record-still-live-after-deletekey", fmt.Sprintf("%s StopWithContext{DeleteKey} returned at %v but its record (token %s) is still live", a.Inst, a.RetVT, a.RecTok), a.Ret)
					}
				}
			}
		}
	}
	for idx, e := range v.Ev {
		if e.Kind == "final" {
			res.Obs["c09.final_census"]++
			if e.N > 0 {
				fr := normFrames(e.S)
				res.viol("C09", "goroutine-leak", "goroutine-leak:"+fr, fmt.Sprintf("%d goroutines with library frames remain after every instance was stopped and all calls returned: %s", e.N, e.S), idx)
			}
		}
		// a watch the store handed to the instance and that the instance never stopped is
		// background activity that goes on after the stop (with the real client: a subscription
		// that stays on the connection)
		if e.Kind == "final.watchers" && e.N > 0 {
			res.viol("C09", "watch-leak", "watch-left-open-after-stop", fmt.Sprintf("%s: %d watch(es) it was handed were never stopped, although the instance is stopped and all calls have returned", e.Inst, e.N), idx)
		}
	}
}

func boolStr(b bool, t, f string) string {
	if b {
		return t
	}
	return f
}

func normFrames(s string) string {
	set := map[string]bool{}
	for _, f := range strings.Split(s, " | ") {
		if i := strings.Index(f, "["); i >= 0 {
			f = f[:i]
		}
		set[f] = true
	}
	var o []string
	for f := range set {
		o = append(o, f)
	}
	sort.Strings(o)
	return strings.Join(o, ",")
}

func stopTimeout(desc string) time.Duration {
	// desc: "del=%v wait=%v to=%v ctx=%s/%v"
	var to, cd time.Duration
	ck := ""
	for _, f := range strings.Fields(desc) {
		if strings.HasPrefix(f, "to=") {
			to, _ = time.ParseDuration(f[3:])
		}
		if strings.HasPrefix(f, "ctx=") {
			p := strings.SplitN(f[4:], "/", 2)
			ck = p[0]
			if len(p) == 2 {
				cd, _ = time.ParseDuration(p[1])
			}
		}
	}
	if to > 0 {
		if (ck == "deadline" || ck == "cancelmid") && cd < to {
			return cd
		}
		return to
	}
	if ck == "deadline" {
		return cd
	}
	if ck == "cancelmid" && cd < 5*time.Second {
		return cd
	}
	return 5 * time.Second
}

// siteBefore: closest log message on the goroutine before idx (call site hint).
func (v *View) siteBefore(idx int, g uint64) string {
	for j := idx - 1; j >= 0 && j > idx-200; j-- {
		p := v.Ev[j]
		if p.G == g && p.Kind == "log" {
			return p.Msg
		}
		if p.G == g && p.Kind == "api.call" {
			return "api:" + p.API
		}
	}
	return "-"
}

// ownsLiveAt: is the live record at event index idx written by inst with token?
func (v *View) ownsLiveAt(inst, token string, idx int) bool {
	var last *Mut
	for i := range v.Muts {
		m := &v.Muts[i]
		if m.Seq > idx {
			break
		}
		is := v.instSpec(inst)
		if is != nil && m.Key == is.Group {
			last = m
		}
	}
	if last == nil || !(last.Op == "Create" || last.Op == "Update" || last.Op == "Put") {
		return false
	}
	id, tok, _ := DecodeIDToken([]byte(last.Val))
	return id == inst && tok == token && last.By == inst
}

// ---------------------------------------------------------------------------
// C03 — deposed or cut-off leader stops claiming within a bounded time
// ---------------------------------------------------------------------------

func (v *View) checkC03(res *Result) {
	fiv := v.faultIvals()
	hostile := v.Spec.HasTag("hostile")
	report := func(clause, sig, detail string, seq int) {
		res.viol("C03", clause, sig, detail, seq)
		if hostile {
			res.viol("C13", "tamper-demotion", sig, detail, seq)
		}
	}
	firstDemoteAfter := func(inst string, idx int) (time.Duration, bool) {
		for j := idx; j < len(v.Ev); j++ {
			if v.Ev[j].Kind == "cb.demote" && v.Ev[j].Inst == inst {
				return v.Ev[j].VT, true
			}
		}
		return 0, false
	}
	stopCallBetween := func(inst string, a, b time.Duration) bool {
		for _, c := range v.APIs {
			if c.Inst == inst && c.IsStop() && c.CallVT <= b && (c.Ret < 0 || c.RetVT >= a) {
				return true
			}
		}
		return false
	}
	// (a) record replaced / deleted / expired underneath a leader whose store answers
	for _, m := range v.Muts {
		owner, otok, _ := DecodeIDToken([]byte(m.PrevVal))
		if m.PrevOp != "PUT" || owner == "" || m.By == owner {
			continue
		}
		if m.PrevBy != owner {
			continue
		}
		t := v.termAt(owner, m.Seq)
		if t == nil || t.Token != otok {
			continue
		}
		is := v.instSpec(owner)
		if is == nil {
			continue
		}
		bound := is.H + 2*opTimeout(is.H)
		dl := m.VT + bound
		dl = v.extend(m.VT, dl)
		kind := "replaced"
		switch m.Op {
		case "Expired", "Expire":
			kind = "expired"
		case "Delete":
			kind = "deleted"
		}
		if overlaps(fiv[owner], m.VT, dl) || stopCallBetween(owner, m.VT-time.Millisecond, dl) {
			res.Obs["c03.a_skipped_faulted"]++
			continue
		}
		if is.HealthOn {
			continue
		}
		if dl > v.End && v.End >= 0 {
			continue
		}
		res.Obs["c03.a_obligations"]++
		res.Obs["c03.a_kind."+kind]++
		down := t.Down >= 0 && t.DownVT <= dl
		dvt, dok := firstDemoteAfter(owner, m.Seq)
		if !down {
			sig := "still-leader-after:" + kind
			if v.startCtxEnded(owner, m.Seq) {
				sig += ":start-context-ended" // the application ended the Start context and made no stop call
			}
			report("deposed-bound", sig, fmt.Sprintf("%s: record %s at %v; still reporting leadership at %v (bound H+2To=%v)", owner, kind, m.VT, dl, bound), m.Seq)
		} else if !dok || dvt > dl {
			report("deposed-bound", "no-demote-callback-after:"+kind+":"+t.Cause, fmt.Sprintf("%s: record %s at %v; flag down at %v (%s) but demotion callback not run by %v", owner, kind, m.VT, t.DownVT, t.Cause, dl), m.Seq)
		} else {
			res.Obs["c03.a_demoted_by."+t.Cause]++
		}
	}
	// (b) refreshes keep failing
	for _, t := range v.All {
		is := v.instSpec(t.Inst)
		if is == nil || is.HealthOn {
			continue
		}
		to := opTimeout(is.H)
		var ups []*StoreCall
		var acq *StoreCall
		end := t.Down
		if end < 0 {
			end = len(v.Ev)
		}
		for _, c := range v.CallsL {
			if c.Inst != t.Inst {
				continue
			}
			if (c.Op == "Create" || c.Op == "Update") && c.Return >= 0 && c.Return <= t.Up && c.OK && c.Apply >= 0 {
				acq = c // the latest successful write returned before the term started = the acquisition
			}
			if c.Op == "Update" && c.Issue > t.Up && c.Issue < end {
				// refreshes of this term only (takeover attempts of leftover goroutines are
				// Updates too, with fresh tokens)
				if _, tok, _ := DecodeIDToken([]byte(c.ReqVal)); tok == t.Token {
					ups = append(ups, c)
				}
			}
		}
		if acq == nil {
			continue
		}
		lastOK := acq.IssueVT
		var run []*StoreCall
		done := false
		failDone := func(c *StoreCall) time.Duration {
			fc := c.IssueVT + to
			if c.Return >= 0 && c.ReturnVT < fc {
				fc = c.ReturnVT
			}
			return fc
		}
		for _, c := range ups {
			if done {
				break
			}
			ok := c.Apply >= 0 && c.OK && c.Return >= 0 && c.ReturnVT-c.IssueVT <= to
			if ok {
				lastOK = c.IssueVT
				run = nil
				continue
			}
			// (a refresh rejected for a revision conflict is a failed refresh too: correct code
			// steps down at the first one, which satisfies "by the third" a fortiori)
			run = append(run, c)
			res.Obs["c03.b_failed_attempts"]++
			if len(run) < 3 {
				continue
			}
			// completion of the third consecutive failed attempt
			c3 := failDone(run[0])
			for _, x := range run[:3] {
				if f := failDone(x); f > c3 {
					c3 = f
				}
			}
			if len(run) >= 4 {
				if c.IssueVT > c3 {
					report("cutoff-attempts", "refresh-attempt-after-third-failure:"+c.Fault, fmt.Sprintf("%s issued another refresh attempt at %v although its third consecutive failed attempt completed at %v (last success started %v)", t.Inst, c.IssueVT, c3, lastOK), c.Issue)
					done = true
				}
				continue
			}
			dl := lastOK + 3*is.H + 3*to
			if c3 < dl {
				dl = c3
			}
			dl = v.extend(lastOK, dl)
			if v.End >= 0 && dl > v.End {
				continue
			}
			if stopCallBetween(t.Inst, lastOK, dl) {
				continue
			}
			res.Obs["c03.b_obligations"]++
			res.Obs["c03.b_fault."+run[0].Fault]++
			dvt, dok := firstDemoteAfter(t.Inst, run[0].Issue)
			if t.Down < 0 || t.DownVT > dl {
				report("cutoff-bound", "still-leader-after-3-failures:"+run[0].Fault, fmt.Sprintf("%s: refreshes fail since %v (last success started %v); third failure complete at %v, still leader (bound 3H+3To = %v)", t.Inst, run[0].IssueVT, lastOK, c3, lastOK+3*is.H+3*to), c.Issue)
			} else if !dok || dvt > dl+is.DemoteDelay {
				report("cutoff-bound", "no-demote-callback-after-3-failures:"+run[0].Fault, fmt.Sprintf("%s: flag down at %v but demotion callback not run by %v", t.Inst, t.DownVT, dl), c.Issue)
			}
		}
	}
}

// ---------------------------------------------------------------------------
// C04 — fencing-token validation sound and fail-safe
// ---------------------------------------------------------------------------

type version struct {
	from, to int // event index interval during which this version is the live record
	val      string
}

func (v *View) versions(key string) []version {
	var out []version
	var cur *version
	for _, m := range v.Muts {
		if m.Key != key {
			continue
		}
		if cur != nil {
			cur.to = m.Seq
			out = append(out, *cur)
			cur = nil
		}
		if m.Op == "Create" || m.Op == "Update" || m.Op == "Put" {
			cur = &version{from: m.Seq, to: len(v.Ev), val: m.Val}
		}
	}
	if cur != nil {
		out = append(out, *cur)
	}
	return out
}

func (v *View) checkC04(res *Result) {
	vers := map[string][]version{}
	for _, a := range v.APIs {
		if a.API != "ValidateToken" && a.API != "ValidateTokenOrDemote" {
			continue
		}
		if a.Ret < 0 {
			continue
		}
		is := v.instSpec(a.Inst)
		if is == nil {
			continue
		}
		res.Obs["c04.calls"]++
		if _, ok := vers[is.Group]; !ok {
			vers[is.Group] = v.versions(is.Group)
		}
		// ownership change inside the call interval
		for _, m := range v.Muts {
			if m.Key == is.Group && m.Seq > a.Call && m.Seq < a.Ret && (m.By != a.Inst || m.Op == "Expired") {
				res.Obs["c04.calls_with_change_inside"]++
				break
			}
		}
		if a.Result == "true" && (v.heldAt(a.Inst, a.CallVT) || v.heldAt(a.Inst, a.RetVT) || v.heldAtSeq(a.Inst, a.Call) || v.heldAtSeq(a.Inst, a.Ret)) {
			// the library is stopped inside a call into user code of this instance (possibly
			// between raising the leadership flag and publishing the term): the oracle's view of
			// the term boundaries is not reliable for this call
			res.Obs["c04.true_during_hold"]++
			continue
		}
		if a.Result == "true" {
			res.Obs["c04.true"]++
			ok := false
			for _, t := range v.Terms[a.Inst] {
				if t.Up > a.Ret || (t.Down >= 0 && t.Down < a.Call) {
					continue
				}
				for _, ver := range vers[is.Group] {
					if ver.from > a.Ret || ver.to < a.Call {
						continue
					}
					p := DecodePayload([]byte(ver.val))
					// (p.Object: the value as a whole is one JSON object - "malformed record" is one of
					// the situations the property lists under false, and bytes that merely begin with
					// a well-formed record are malformed)
					if p.Object && p.HasID(a.Inst) && p.HasToken(t.Token) {
						ok = true
					}
				}
			}
			if !ok {
				res.viol("C04", "unsound-true", "true-without-backing:"+a.API, fmt.Sprintf("%s %s returned true over [%v,%v] but no live record version in that interval held its id and a token of a term it led then", a.Inst, a.API, a.CallVT, a.RetVT), a.Ret)
			}
			if a.CtxKind == "cancelled" {
				res.viol("C04", "failsafe-ctx", "true-with-cancelled-context", a.Inst+" validation returned true with an already cancelled context", a.Ret)
			}
			// the application cancelled the call's context at a virtual instant strictly before
			// the call returned: from that instant on "cancelled context" is the situation the
			// call is in, and it went on waiting for the store and answered true
			if (a.CtxKind == "cancelmid" || a.CtxKind == "deadlinecancel") && a.CtxEndVT >= 0 && a.CtxEndVT < a.RetVT {
				res.viol("C04", "failsafe-ctx", "true-after-context-cancelled:"+a.CtxKind, fmt.Sprintf("%s %s returned true at %v; its context was cancelled at %v", a.Inst, a.API, a.RetVT, a.CtxEndVT), a.Ret)
			}
			// every overlapping Get failed => must be false
			n, bad := 0, 0
			for _, c := range v.CallsL {
				if c.Inst == a.Inst && c.Op == "Get" && c.Issue > a.Call && c.Issue < a.Ret {
					n++
					if !(c.Apply >= 0 && c.OK) {
						bad++
					}
				}
			}
			if n > 0 && bad == n {
				res.viol("C04", "failsafe-store", "true-although-reads-failed", fmt.Sprintf("%s validation returned true although all %d reads issued during the call failed", a.Inst, n), a.Ret)
			}
		} else {
			res.Obs["c04.false"]++
			if a.CtxKind == "cancelled" {
				res.Obs["c04.false_cancelled_ctx"]++
			}
			if (a.CtxKind == "cancelmid" || a.CtxKind == "deadlinecancel") && a.CtxEndVT >= 0 && a.CtxEndVT <= a.RetVT {
				res.Obs["c04.false_ctx_cancelled_midcall"]++
			}
			if a.API == "ValidateTokenOrDemote" {
				res.Obs["c04.ordemote_false"]++
				demotedByCall := false
				if a.Ret >= 0 {
					g := v.Ev[a.Call].G
					for j := a.Call + 1; j < a.Ret; j++ {
						if ev := v.Ev[j]; ev.Kind == "flag" && ev.Inst == a.Inst && !ev.Flag && ev.G == g && v.termEndsAt(a.Inst, j) {
							demotedByCall = true // (its slow OnDemote may keep the call from returning while the instance is elected again)
							break
						}
					}
				}
				if a.PostFlag && !demotedByCall {
					// leading at the return, in a term that was already running when the verdict was
					// reached (the call's last read had not returned yet): that term was not demoted.
					// (A term that began after it is a re-election following the demotion.)
					verdictAt := a.Call
					for _, c := range v.CallsL {
						if c.Inst == a.Inst && c.Op == "Get" && c.Issue > a.Call && c.Return >= 0 && c.Return < a.Ret && c.Return > verdictAt {
							verdictAt = c.Return
						}
					}
					if t := v.termAt(a.Inst, a.Ret); t != nil && t.Up < verdictAt {
						res.viol("C04", "ordemote", "still-leader-after-ordemote-false", fmt.Sprintf("%s ValidateTokenOrDemote returned false at %v but the instance still reports leadership (term %s, running since %v)", a.Inst, a.RetVT, t.Token, t.UpVT), a.Ret)
						if v.Spec.HasTag("hostile") {
							// "a leader whose record was tampered with is demoted as in C03/C04"
							res.viol("C13", "tampered-not-demoted", "tampered-leader-not-demoted:ordemote-false", fmt.Sprintf("%s: ValidateTokenOrDemote saw the tampered record (false at %v) and left the instance leading", a.Inst, a.RetVT), a.Ret)
						}
					}
				}
				// "whenever it returns false ... if it was leader, the demotion callback has been
				// invoked": when the call itself took the flag down (the flag-down event is on the
				// call's own goroutine, between call and return), the callback has been entered
				// before the call returns - not on some other goroutine a moment later. (When
				// another path ended the term concurrently, its callback is that path's business:
				// the weaker clause below.)
				if a.Ret >= 0 {
					g := v.Ev[a.Call].G
					for j := a.Call + 1; j < a.Ret; j++ {
						ev := v.Ev[j]
						if ev.Kind == "flag" && ev.Inst == a.Inst && !ev.Flag && ev.G == g && v.termEndsAt(a.Inst, j) {
							res.Obs["c04.ordemote_demoted_by_call"]++
							entered := false
							for i := j + 1; i < a.Ret; i++ {
								if v.Ev[i].Kind == "cb.demote" && v.Ev[i].Inst == a.Inst {
									entered = true
									break
								}
							}
							if !entered && v.hasDemoteCallback(a.Inst, j) {
								res.viol("C04", "ordemote-callback", "demote-callback-not-invoked-when-ordemote-returns", fmt.Sprintf("%s ValidateTokenOrDemote (context %s) took the leadership flag down and returned false at %v before the demotion callback was entered", a.Inst, a.CtxKind, a.RetVT), a.Ret)
							}
							break
						}
					}
				}
				if a.PreFlag {
					// the term it led at the call must have a demotion callback by the next quiescent point
					q := v.nextQuiescent(a.Inst, a.Ret)
					if q >= 0 && !v.inStopAt(a.Inst, q) {
						p, d := 0, 0
						for j := 0; j < q; j++ {
							if v.Ev[j].Inst == a.Inst {
								if v.Ev[j].Kind == "cb.promote" {
									p++
								} else if v.Ev[j].Kind == "cb.demote" {
									d++
								}
							}
						}
						lead := v.termAt(a.Inst, q) != nil
						if !lead && p != d {
							res.viol("C04", "ordemote-callback", "no-demote-callback-after-ordemote-false", fmt.Sprintf("%s ValidateTokenOrDemote false at %v: promotions=%d demotions=%d at the next quiescent point", a.Inst, a.RetVT, p, d), a.Ret)
						}
					}
				}
			}
		}
	}
	for _, m := range v.Muts {
		if m.By == "outside" && m.Op == "Put" {
			res.Obs["c04.outside_payload."+payloadKind(m.Val)]++
		}
	}
}

func payloadKind(val string) string {
	p := DecodePayload([]byte(val))
	switch {
	case len(val) == 0:
		return "empty"
	case !p.Object:
		return "non-object"
	case len(p.IDs) == 0 || len(p.Tokens) == 0:
		return "object-missing-fields"
	case len(p.IDs) > 1 || len(p.Tokens) > 1:
		return "object-duplicates"
	default:
		return "object-wellformed"
	}
}

// ---------------------------------------------------------------------------
// C06 — a vacancy is filled within a bounded time while a healthy candidate exists
// ---------------------------------------------------------------------------

func (v *View) checkC06(res *Result) {
	if v.End < 0 {
		return
	}
	maxLeg := v.maxLeg()
	var maxDD time.Duration
	for _, is := range v.Spec.Insts {
		if is.DemoteDelay > maxDD {
			maxDD = is.DemoteDelay
		}
	}
	B := periodicCheck + jitterMaxD + 8*maxLeg + maxDD + time.Millisecond
	settle := 4*maxLeg + time.Millisecond
	fiv := v.faultIvals()
	groups := map[string][]string{}
	for _, is := range v.Spec.Insts {
		groups[is.Group] = append(groups[is.Group], is.Name)
	}
	// per instance: running intervals [start returned ok, next stop call)
	type run struct{ a, b time.Duration }
	runs := map[string][]run{}
	for _, a := range v.APIs {
		if a.API == "Start" && a.Result == "ok" {
			r := run{a.RetVT, v.End + time.Hour}
			for _, s := range v.APIs {
				// (a stop call issued while this Start was still in progress and returning after
				// it took effect after it)
				if s.Inst == a.Inst && s.IsStop() && (s.Call > a.Ret || (s.Call > a.Call && (s.Ret < 0 || s.Ret > a.Ret))) {
					r.b = s.CallVT
					break
				}
				// (a stop call ISSUED before this Start - on another goroutine, at the same moment -
				// and returning after it: unless it demonstrably took effect before the Start was
				// called, it may have stopped this very run; the instance is not counted as running)
				if s.Inst == a.Inst && s.IsStop() && s.Call < a.Call && (s.Ret < 0 || s.Ret > a.Ret) {
					before := false
					for j := s.Call + 1; j < a.Call; j++ {
						if e := v.Ev[j]; e.Kind == "transition" && e.Inst == a.Inst && e.G == s.G && e.To == "STOPPED" {
							before = true
						}
					}
					if !before {
						r.b = a.RetVT
						break
					}
				}
			}
			runs[a.Inst] = append(runs[a.Inst], r)
		}
	}
	healthy := func(inst string, a, b time.Duration) bool {
		ok := false
		for _, r := range runs[inst] {
			if r.a+settle <= a && r.b > b {
				ok = true
			}
		}
		if !ok {
			return false
		}
		return !overlaps(fiv[inst], a, b)
	}
	claims := func(inst string, a, b time.Duration) bool {
		for _, t := range v.Terms[inst] {
			d := t.DownVT
			if t.Down < 0 {
				d = v.End + time.Hour
			}
			if t.UpVT <= b && d >= a {
				return true
			}
		}
		return false
	}
	for g, members := range groups {
		// vacancy intervals
		type vac struct{ a, b time.Duration }
		var vacs []vac
		live := false
		var since time.Duration
		for _, m := range v.Muts {
			if m.Key != g {
				continue
			}
			put := m.Op == "Create" || m.Op == "Update" || m.Op == "Put"
			if put && !live {
				vacs = append(vacs, vac{since, m.VT})
				live = true
			} else if !put && live {
				live = false
				since = m.VT
			}
		}
		if !live {
			vacs = append(vacs, vac{since, v.End})
		}
		for _, vc := range vacs {
			// obligation instants
			t0s := []time.Duration{vc.a}
			for _, x := range members {
				for _, iv := range fiv[x] {
					if iv.b > vc.a && iv.b < vc.b {
						t0s = append(t0s, iv.b+time.Nanosecond)
					}
				}
				for _, r := range runs[x] {
					if s := r.a + settle; s > vc.a && s < vc.b {
						t0s = append(t0s, s)
					}
				}
				for _, t := range v.Terms[x] {
					if t.Down >= 0 && t.DownVT > vc.a && t.DownVT < vc.b {
						t0s = append(t0s, t.DownVT)
					}
				}
			}
			for _, t0 := range t0s {
				w := t0 + B
				w = v.extend(t0, w)
				if w > v.End {
					continue
				}
				var hs []string
				for _, x := range members {
					if healthy(x, t0, w) {
						hs = append(hs, x)
					}
				}
				if len(hs) == 0 {
					continue
				}
				res.Obs["c06.obligations"]++
				if t0 == vc.a {
					res.Obs["c06.vacancies"]++
				}
				ok := false
				for _, x := range hs {
					if claims(x, t0, w) {
						ok = true
					}
				}
				if ok {
					continue
				}
				// ghost write by a non-healthy party inside the window?
				ghost := false
				for _, m := range v.Muts {
					if m.Key == g && m.VT >= t0 && m.VT <= w && (m.Op == "Create" || m.Op == "Update" || m.Op == "Put") {
						isH := false
						for _, x := range hs {
							if x == m.By {
								isH = true
							}
						}
						if !isH {
							ghost = true
						}
					}
				}
				if ghost {
					res.Obs["c06.lapsed_by_ghost_write"]++
					continue
				}
				why := v.whyNoCandidate(hs, t0)
				res.viol("C06", "vacancy-unfilled", "vacancy-unfilled:"+why, fmt.Sprintf("group %s vacant since %v; healthy settled %v; no healthy instance claimed leadership in [%v,%v] (B=%v)", g, vc.a, hs, t0, w, B), v.seqAt(t0))
			}
		}
	}
	for _, e := range v.Ev {
		switch e.Kind {
		case "watch.drop":
			res.Obs["c06.watch_drops"]++
		case "watch.closed":
			res.Obs["c06.watch_closed"]++
		}
	}
}

func (v *View) seqAt(t time.Duration) int {
	for i, e := range v.Ev {
		if e.VT >= t {
			return i
		}
	}
	return len(v.Ev) - 1
}

// whyNoCandidate classifies the state of the healthy instances at t0 from their logs.
func (v *View) whyNoCandidate(hs []string, t0 time.Duration) string {
	tags := map[string]bool{}
	for _, x := range hs {
		last := "no-watch"
		for _, e := range v.Ev {
			if e.VT > t0 {
				break
			}
			if e.Kind == "log" && e.Inst == x {
				switch e.Msg {
				case "watch_started":
					last = "watching"
				case "watch_failed":
					last = "watch-failed"
				case "watch_closed":
					last = "watch-closed"
				}
			}
		}
		tags[last] = true
	}
	var o []string
	for t := range tags {
		o = append(o, t)
	}
	sort.Strings(o)
	return strings.Join(o, "+")
}

// ---------------------------------------------------------------------------
// C10 — priority takeover: only strictly lower priority, and promptly
// ---------------------------------------------------------------------------

func (v *View) checkC10(res *Result) {
	anyPrio := false
	for _, is := range v.Spec.Insts {
		if is.Priority != 0 || is.Takeover {
			anyPrio = true
		}
	}
	if !anyPrio {
		return
	}
	// safety over every replacement of a live record of another (election) owner
	for _, m := range v.Muts {
		if m.Op != "Update" || m.PrevOp != "PUT" || m.By == "outside" || m.PrevBy == "outside" {
			continue
		}
		pid, _, pprio := DecodeIDToken([]byte(m.PrevVal))
		if pid == m.By {
			continue
		}
		is := v.instSpec(m.By)
		if is == nil {
			continue
		}
		if is.Takeover && is.Priority > pprio {
			// "the priority stored in that record" is the priority of the instance that wrote
			// it: a record that an election instance wrote without its configured priority lets
			// an instance that does not outrank its writer replace it ("leadership then stays
			// with the highest-priority instance")
			if ps := v.instSpec(m.PrevBy); ps != nil && m.PrevBy == pid && pprio != ps.Priority && !(is.Priority > ps.Priority) {
				res.viol("C10", "illegitimate-takeover", "illegitimate-takeover:record-without-its-writers-priority",
					fmt.Sprintf("%s (prio %d) replaced the live record of %s (configured prio %d), which %s itself had written with priority %d", m.By, is.Priority, pid, ps.Priority, pid, pprio), m.Seq)
				continue
			}
			res.Obs["c10.takeovers"]++
			continue
		}
		res.viol("C10", "illegitimate-takeover", fmt.Sprintf("illegitimate-takeover:takeover=%v:%s", is.Takeover, cmpStr(is.Priority, pprio)),
			fmt.Sprintf("%s (takeover=%v prio=%d) replaced the live record of %s (prio %d)", m.By, is.Takeover, is.Priority, pid, pprio), m.Seq)
	}
	// refused takeovers: a takeover-capable or not instance saw another's record and did not replace it
	for _, e := range v.Ev {
		if e.Kind == "log" && (e.Msg == "priority_takeover_failed" || (e.Msg == "acquire_failed" && strings.Contains(e.Fields["error"], "equal or higher priority"))) {
			res.Obs["c10.refused"]++
		}
	}
	if !v.Spec.Prompt || v.End < 0 {
		return
	}
	// promptness (fault-free, l <= H/20)
	for _, is := range v.Spec.Insts {
		if !is.Takeover {
			continue
		}
		var st *APICall
		for _, a := range v.APIs {
			if a.Inst == is.Name && a.API == "Start" && a.Result == "ok" {
				st = a
				break
			}
		}
		if st == nil {
			continue
		}
		// incumbent: a settled leader with strictly lower priority at the start instant
		var inc *Term
		for _, t := range v.All {
			if t.Inst != is.Name && t.Up < st.Call && (t.Down < 0 || t.Down > st.Call) {
				if o := v.instSpec(t.Inst); o != nil && o.Group == is.Group {
					inc = t
				}
			}
		}
		if inc == nil {
			continue
		}
		io := v.instSpec(inc.Inst)
		if !(is.Priority > io.Priority) || st.CallVT-inc.UpVT < io.H || st.CallVT < v.Spec.PromptAfter {
			continue
		}
		dl := st.RetVT + 3*io.H
		dl = v.extend(st.RetVT, dl)
		if dl > v.End {
			continue
		}
		// another, at least as high takeover candidate may legitimately get there first
		blocked := false
		for _, o := range v.Spec.Insts {
			if o.Name != is.Name && o.Group == is.Group && o.Takeover && o.Priority >= is.Priority {
				blocked = true
			}
		}
		stopped := false
		for _, a := range v.APIs {
			if a.Inst == is.Name && a.IsStop() && a.CallVT <= dl && !a.Teardown {
				stopped = true
			}
		}
		if blocked || stopped {
			continue
		}
		res.Obs["c10.prompt_obligations"]++
		ok := false
		for _, t := range v.Terms[is.Name] {
			if t.UpVT <= dl && t.Up > st.Call {
				ok = true
			}
		}
		if !ok {
			res.viol("C10", "promptness", "takeover-not-within-3H", fmt.Sprintf("%s (prio %d, takeover) started at %v beside leader %s (prio %d) and was not leader by %v", is.Name, is.Priority, st.RetVT, inc.Inst, io.Priority, dl), st.Ret)
		}
		// the deposed leader is demoted within the C03(a) bound of the replacement: checked by C03(a)
	}
	// the same obligation for every later term: a leader that has a strictly higher-priority,
	// takeover-enabled instance running beside it (as a follower for at least one H already)
	// is replaced by it within 3H
	for _, t := range v.All {
		io := v.instSpec(t.Inst)
		if io == nil {
			continue
		}
		for _, is := range v.Spec.Insts {
			if !is.Takeover || is.Name == t.Inst || is.Group != io.Group || !(is.Priority > io.Priority) {
				continue
			}
			// running: its latest Start before the term returned ok at least H earlier, no stop call since
			// (a term that began while faults were still going on and is still running when
			// they have ceased - PromptAfter - is an obligation from that moment on: fault-free
			// conditions, a higher-priority takeover-enabled instance next to a lower-priority leader)
			base := t.UpVT
			late := v.Spec.PromptAfter > 0 && t.UpVT < v.Spec.PromptAfter
			if late {
				base = v.Spec.PromptAfter
				if t.Down >= 0 && t.DownVT <= base {
					continue
				}
			}
			var st *APICall
			for _, a := range v.APIs {
				if a.Inst != is.Name || a.Ret < 0 {
					continue
				}
				if (!late && a.Ret > t.Up) || (late && a.RetVT > base) {
					continue
				}
				if a.API == "Start" && a.Result == "ok" {
					st = a
				} else if a.IsStop() {
					st = nil
				}
			}
			if st == nil || base-st.RetVT < is.H {
				continue
			}
			if late {
				res.Obs["c10.prompt_obligations_after_faults"]++
			}
			dl := base + 3*io.H
			if is.H > io.H {
				dl = base + 3*is.H
			}
			dl = v.extend(base, dl)
			if dl > v.End {
				continue
			}
			skip := false
			for _, o := range v.Spec.Insts {
				if o.Name != is.Name && o.Name != t.Inst && o.Group == is.Group && o.Takeover && o.Priority >= is.Priority && v.runningWithin(o.Name, base, dl) {
					skip = true // another candidate at least as high (and running) may legitimately get there first
				}
			}
			for _, a := range v.APIs {
				if (a.Inst == is.Name || a.Inst == t.Inst) && a.IsStop() && a.CallVT <= dl && (a.Ret < 0 || a.Ret > t.Up) && !a.Teardown {
					skip = true // one of the two is being stopped
				}
			}
			if skip {
				continue
			}
			got := false
			for _, x := range v.Terms[is.Name] {
				if x.Up > t.Up && x.UpVT <= dl {
					got = true
				}
			}
			if !got && t.Down >= 0 && t.DownVT < dl {
				continue // the term ended for another reason before the deadline
			}
			res.Obs["c10.prompt_obligations_term"]++
			if !got {
				sig := "takeover-not-within-3H:term"
				if late {
					sig += ":running-when-faults-ceased"
				}
				res.viol("C10", "promptness", sig, fmt.Sprintf("%s (prio %d, takeover) ran as a follower beside leader %s (prio %d, term from %v; fault-free from %v) and was not leader by %v", is.Name, is.Priority, t.Inst, io.Priority, t.UpVT, base, dl), t.Up)
			}
		}
	}
	// final owner and stability over the last 10H
	v.checkC10Final(res)
}

func cmpStr(a, b int) string {
	switch {
	case a > b:
		return "higher"
	case a == b:
		return "equal"
	}
	return "lower"
}

func (v *View) checkC10Final(res *Result) {
	for _, a := range v.Spec.Actions {
		if a.Kind != "start" {
			return // only pure start-order scenarios
		}
	}
	groups := map[string][]InstSpec{}
	for _, is := range v.Spec.Insts {
		groups[is.Group] = append(groups[is.Group], is)
	}
	for g, ms := range groups {
		var maxH time.Duration
		for _, is := range ms {
			if is.H > maxH {
				maxH = is.H
			}
		}
		// first leader
		var first *Term
		for _, t := range v.All {
			if o := v.instSpec(t.Inst); o != nil && o.Group == g {
				first = t
				break
			}
		}
		if first == nil {
			continue
		}
		fo := v.instSpec(first.Inst)
		best := fo.Priority
		cands := map[string]bool{first.Inst: true}
		for _, is := range ms {
			if is.Takeover && is.Priority > best {
				best = is.Priority
			}
		}
		if best > fo.Priority {
			cands = map[string]bool{}
			for _, is := range ms {
				if is.Takeover && is.Priority == best {
					cands[is.Name] = true
				}
			}
		}
		// settle time: 3H per takeover-enabled instance after the last start
		var lastStart time.Duration
		for _, a := range v.APIs {
			if a.API == "Start" && a.RetVT > lastStart {
				lastStart = a.RetVT
			}
		}
		nT := 0
		for _, is := range ms {
			if is.Takeover {
				nT++
			}
		}
		settled := lastStart + time.Duration(3*(nT+1))*maxH
		if settled+10*maxH > v.End {
			continue
		}
		res.Obs["c10.final_checks"]++
		// owner over [settled, End]
		for _, m := range v.Muts {
			if m.Key != g || m.VT < settled || m.VT > v.End {
				continue
			}
			nid, _, _ := DecodeIDToken([]byte(m.Val))
			pid, _, _ := DecodeIDToken([]byte(m.PrevVal))
			if m.Op != "Update" || nid != pid {
				res.viol("C10", "stability", "owner-changes-after-settling:"+m.Op, fmt.Sprintf("group %s: record changed by %s (%s) at %v after takeovers should have settled at %v", g, m.By, m.Op, m.VT, settled), m.Seq)
				break
			}
		}
		var owner string
		for _, e := range v.Ev {
			if e.Kind == "record" && e.Key == g && e.VT >= settled && e.VT <= v.End {
				owner = e.RecID
			}
		}
		if owner != "" && !cands[owner] {
			res.viol("C10", "final-owner", "final-owner-not-highest-priority", fmt.Sprintf("group %s: owner %s after settling; expected one of %v", g, owner, keysOf(cands)), v.EndSeq-1)
		}
	}
}

func keysOf(m map[string]bool) []string {
	var o []string
	for k := range m {
		o = append(o, k)
	}
	sort.Strings(o)
	return o
}

// ---------------------------------------------------------------------------
// C11 — disconnect grace period; verification on reconnect
// ---------------------------------------------------------------------------

func (v *View) checkC11(res *Result) {
	for _, is := range v.Spec.Insts {
		if !is.Conn {
			continue
		}
		G := is.Grace
		if G == 0 {
			G = 3 * is.H
			if G < 5*time.Second {
				G = 5 * time.Second
			}
		}
		type note struct {
			kind     string
			idx, ret int
			vt, rvt  time.Duration
		}
		var notes []note
		for idx, e := range v.Ev {
			if e.Inst != is.Name {
				continue
			}
			if e.Kind == "conn.notify" {
				notes = append(notes, note{kind: e.S, idx: idx, ret: -1, vt: e.VT})
			} else if e.Kind == "conn.notify.return" && len(notes) > 0 {
				notes[len(notes)-1].ret = idx
				notes[len(notes)-1].rvt = e.VT
			}
		}
		res.Obs["c11.notifications"] += len(notes)
		// (a) connection-loss demotion never before latest D + G
		for _, t := range v.Terms[is.Name] {
			if t.Cause != "connection_loss" {
				continue
			}
			res.Obs["c11.grace_demotions"]++
			// the expiry handler decides under the handler mutex and then demotes without it; a
			// notification that begins after that decision (observable as the handler's yield
			// site or its "demoting" log line, same goroutine) cannot and need not stop it, and
			// one still in flight at that point may be ordered either way
			decision := t.Down
			for j := t.Down - 1; j >= 0 && j > t.Down-400; j-- {
				p := v.Ev[j]
				if p.G != v.Ev[t.Down].G {
					continue
				}
				if (p.Kind == "log" && p.Msg == "demoting_due_to_connection_loss") || (p.Kind == "yield" && p.S == "graceExpiredAfterUnlock") || (p.Kind == "break.hit" && p.Op == "yield:graceExpiredAfterUnlock") {
					decision = j
				}
				if p.Kind == "flag" {
					break
				}
			}
			var last *note
			for k := range notes {
				if notes[k].kind == "D" && notes[k].idx < t.Down && (notes[k].idx < decision && (notes[k].ret >= 0 && notes[k].ret < decision || decision == t.Down)) {
					last = &notes[k]
				}
			}
			if last == nil {
				res.viol("C11", "grace-early", "connection-loss-demotion-without-disconnect", is.Name+" demoted for connection loss without a disconnect notification", t.Down)
			} else if t.DownVT < last.vt+G {
				res.viol("C11", "grace-early", "demoted-before-grace-elapsed", fmt.Sprintf("%s demoted for connection loss at %v, latest disconnect at %v, grace %v", is.Name, t.DownVT, last.vt, G), t.Down)
			} else {
				// ... and not at all if a reconnect notification arrived after that disconnect
				// (handled completely before the expiry handler decided)
				for k := range notes {
					if notes[k].kind == "R" && notes[k].idx > last.idx && notes[k].ret >= 0 && notes[k].ret < decision {
						res.viol("C11", "grace-after-reconnect", "demoted-for-connection-loss-after-reconnect", fmt.Sprintf("%s demoted for connection loss at %v although a reconnect notification (%v) followed the latest disconnect (%v)", is.Name, t.DownVT, notes[k].vt, last.vt), t.Down)
						break
					}
				}
			}
		}
		// (b) leader at the latest D, nothing else happens within G => demoted at D+G with callback
		for k, n := range notes {
			if n.kind != "D" || n.ret < 0 {
				continue
			}
			t := v.termAt(is.Name, n.idx)
			if t == nil {
				continue
			}
			dl := n.rvt + G
			dl = v.extend(n.vt, dl)
			if v.End >= 0 && dl >= v.End {
				continue
			}
			other := false
			for _, m := range notes[k+1:] {
				if m.vt <= dl && (m.kind == "R" || m.kind == "D") {
					other = true
				}
			}
			closed := false
			for _, m := range notes[k+1:] {
				if m.vt <= dl && m.kind == "C" {
					closed = true
				}
			}
			if other {
				continue
			}
			for _, a := range v.APIs {
				if a.Inst == is.Name && (a.IsStop() || a.API == "ValidateTokenOrDemote") && a.CallVT <= dl && (a.Ret < 0 || a.RetVT >= n.vt) {
					other = true
				}
			}
			if other {
				continue
			}
			if t.Down >= 0 && t.DownVT < n.vt+G && t.Cause != "connection_loss" {
				continue // demoted earlier by another mechanism
			}
			res.Obs["c11.grace_obligations"]++
			tag := boolStr(closed, "after-closed-notification", "plain")
			if t.Down < 0 || t.DownVT > dl {
				res.viol("C11", "grace-late", "not-demoted-at-grace-expiry:"+tag, fmt.Sprintf("%s: disconnect at %v, grace %v, no reconnect; still leader after %v", is.Name, n.vt, G, dl), n.idx)
				continue
			}
			found := false
			for j := t.Down; j < len(v.Ev) && v.Ev[j].VT <= dl+is.DemoteDelay; j++ {
				if v.Ev[j].Kind == "cb.demote" && v.Ev[j].Inst == is.Name {
					found = true
				}
			}
			if !found {
				res.viol("C11", "grace-callback", "no-demote-callback-at-grace-expiry", fmt.Sprintf("%s demoted at %v without demotion callback", is.Name, t.DownVT), t.Down)
			}
		}
		// (c') every reconnect notification to a leader is followed by a FRESH read: if from
		// 100 ms after the notification until well after a verification could have finished
		// (100 ms + two reads) the live record never showed the leader's id and token, the
		// store answered this client promptly and nothing else intervened, the instance must
		// not lead that term any more at the next quiescent point
		fiv := v.faultIvals()
		for _, n := range notes {
			if n.kind != "R" {
				continue
			}
			t := v.termAt(is.Name, n.idx)
			if t == nil {
				continue
			}
			from := n.vt + 100*time.Millisecond
			to := from + 4*v.maxLeg() + 2*time.Millisecond
			to = v.extend(n.vt, to)
			if v.End >= 0 && to >= v.End {
				continue
			}
			// reads issued in [from, to] by this client must not be held or faulted
			bad := false
			for _, iv := range fiv[is.Name] {
				if iv.b >= from && iv.a <= to {
					// a held call that was ISSUED before `from` (an older verification's read) does
					// not excuse the missing fresh read; one issued inside the window does
					if iv.a >= from {
						bad = true
					}
				}
			}
			for _, a := range v.APIs {
				if a.Inst == is.Name && a.IsStop() && a.CallVT <= to && (a.Ret < 0 || a.RetVT >= n.vt) {
					bad = true
				}
			}
			if bad {
				continue
			}
			own := false
			for _, ver := range v.versions(is.Group) {
				vf, vt2 := v.Ev[ver.from].VT, v.lastVT()
				if ver.to < len(v.Ev) {
					vt2 = v.Ev[ver.to].VT
				}
				if vt2 < from || vf > to {
					continue
				}
				id, tok, _ := DecodeIDToken([]byte(ver.val))
				if id == is.Name && tok == t.Token {
					own = true
				}
			}
			if own {
				continue
			}
			q := -1
			for j := v.seqAt(to); j < len(v.Ev) && j < v.EndSeq; j++ {
				if v.Ev[j].Kind == "quiescent" && v.Ev[j].Inst == is.Name && v.Ev[j].VT > to {
					q = j
					break
				}
			}
			if q < 0 {
				continue
			}
			res.Obs["c11.fresh_read_obligations"]++
			if (t.Down < 0 || t.Down > q) && !v.inStopAt(is.Name, q) {
				res.viol("C11", "verify-fresh-read", "keeps-leadership-without-fresh-read", fmt.Sprintf("%s: reconnect notification at %v; from %v to %v the live record never showed its id and token, yet it still leads term %s at %v", is.Name, n.vt, from, to, t.Token, v.Ev[q].VT), n.idx)
			}
		}
		// (c'') the other direction, judged without the verification's log lines: a term ended by
		// the reconnect path ("reconnect_verification") although, from the latest reconnect
		// notification to the demotion, every live version of the record carried the instance's id
		// and that term's token and no read of this client failed or showed anything else: a fresh
		// read could only have shown its own record - the leader keeps leadership.
		for _, t := range v.Terms[is.Name] {
			if t.Down < 0 || t.Cause != "reconnect_verification" {
				continue
			}
			var last *struct {
				vt  time.Duration
				idx int
			}
			for _, n := range notes {
				if n.kind == "R" && n.idx < t.Down && n.idx > t.Up {
					last = &struct {
						vt  time.Duration
						idx int
					}{n.vt, n.idx}
				}
			}
			if last == nil || v.inStopAt(is.Name, t.Down) {
				continue
			}
			intact := true
			for _, ver := range v.versions(is.Group) {
				if ver.to < last.idx || ver.from > t.Down {
					continue
				}
				if id, tok, _ := DecodeIDToken([]byte(ver.val)); id != is.Name || tok != t.Token {
					intact = false
				}
			}
			for _, m := range v.Muts {
				if m.Key == is.Group && m.Seq >= last.idx && m.Seq <= t.Down && (m.Op == "Delete" || m.Op == "Expired" || m.By != is.Name) {
					intact = false
				}
			}
			reads, badReads := 0, 0
			for _, c := range v.CallsL {
				if c.Inst == is.Name && c.Op == "Get" && c.Issue <= t.Down && (c.Return < 0 || c.Return >= last.idx) {
					reads++
					id, tok, _ := DecodeIDToken([]byte(c.Val))
					if !(c.Apply >= 0 && c.OK && id == is.Name && tok == t.Token) {
						badReads++
					}
				}
			}
			if !intact || badReads > 0 {
				continue
			}
			res.Obs["c11.reconnect_demotions_with_intact_record"]++
			res.viol("C11", "verify-false-negative", "demoted-after-reconnect-although-record-intact", fmt.Sprintf("%s: reconnect notification at %v, demoted by the reconnect path at %v; the record carried its id and token %s throughout and none of its %d reads in between said otherwise", is.Name, last.vt, t.DownVT, t.Token, reads), t.Down)
		}
		// (c) reconnect verification. Verifications can overlap (flapping): each one is
		// identified by its goroutine. The k-th "verifying_leadership_after_reconnect" log
		// (written by the notification dispatcher under the election mutex) belongs to the
		// k-th verification goroutine in creation order (goroutine ids are monotonic).
		var verifying []int
		type outc struct {
			g   uint64
			idx int
			msg string
		}
		var outs []outc
		for j, e := range v.Ev {
			if e.Inst != is.Name || e.Kind != "log" {
				continue
			}
			switch e.Msg {
			case "verifying_leadership_after_reconnect":
				verifying = append(verifying, j)
			case "reconnect_verification_failed", "reconnect_verification_success":
				outs = append(outs, outc{e.G, j, e.Msg})
			}
		}
		sort.Slice(outs, func(a, b int) bool { return outs[a].g < outs[b].g })
		if len(outs) != len(verifying) {
			res.Obs["c11.verifications_unpaired"] += len(verifying)
			continue
		}
		for k, vi := range verifying {
			o := outs[k]
			if o.idx < vi {
				continue
			}
			t := v.termAt(is.Name, vi)
			if t == nil {
				continue
			}
			res.Obs["c11.verifications"]++
			// the verification's reads: the connection-test Get on the verification goroutine
			// and the validation Get issued when that one returned
			var first *StoreCall
			for _, c := range v.CallsL {
				if c.Inst == is.Name && c.Op == "Get" && c.G == o.g && c.Issue > vi && c.Issue < o.idx {
					first = c
					break
				}
			}
			if first == nil || first.Return < 0 || first.Return > o.idx {
				continue
			}
			reads := []*StoreCall{first}
			for _, c := range v.CallsL {
				if c.Inst == is.Name && c.Op == "Get" && c != first && c.Issue > first.Return && c.Issue < o.idx && c.IssueVT == first.ReturnVT && c.Return >= 0 && c.Return < o.idx {
					reads = append(reads, c)
				}
			}
			good, bad := 0, 0
			for _, c := range reads {
				id, tok, _ := DecodeIDToken([]byte(c.Val))
				if c.Apply >= 0 && c.OK && id == is.Name && tok == t.Token {
					good++
				} else {
					bad++
				}
			}
			q := v.nextQuiescent(is.Name, o.idx)
			if q < 0 {
				continue
			}
			stillTerm := t.Down < 0 || t.Down > q
			if good == len(reads) {
				res.Obs["c11.verifications_ok"]++
				if t.Down >= 0 && t.Cause == "reconnect_verification" && t.Down <= q && v.Ev[t.Down].G == o.g {
					res.viol("C11", "verify-false-negative", "demoted-although-verification-reads-own-record", fmt.Sprintf("%s demoted by reconnect verification although all %d reads showed its record", is.Name, len(reads)), t.Down)
				}
			} else if bad == len(reads) {
				res.Obs["c11.verifications_must_fail"]++
				if stillTerm && !v.inStopAt(is.Name, q) {
					res.viol("C11", "verify-false-positive", "keeps-leadership-although-verification-reads-failed:"+o.msg, fmt.Sprintf("%s still leads at %v although all %d reads of the verification failed or showed another owner", is.Name, v.Ev[q].VT, len(reads)), o.idx)
				}
			} else {
				res.Obs["c11.verifications_mixed"]++
			}
		}
	}
}

// ---------------------------------------------------------------------------
// C12 — health demotion at exactly the configured count
// ---------------------------------------------------------------------------

func (v *View) checkC12(res *Result) {
	fiv12 := v.faultIvals()
	for _, is := range v.Spec.Insts {
		if !is.HealthOn {
			continue
		}
		M := is.MaxFail
		if M <= 0 {
			M = 3
		}
		res.Obs[fmt.Sprintf("c12.threshold.%d", M)]++
		cnt := 0
		var pendingIdx = -1 // index of the check that reached M
		flag := false
		holdOpen := false // a check held in flight by the harness has not reported its result yet
		var heldUntil time.Duration
		for idx, e := range v.Ev {
			if e.Inst != is.Name {
				continue
			}
			switch e.Kind {
			case "break.hit":
				if strings.HasPrefix(e.Op, "health:") {
					holdOpen = true
				}
			case "break.release":
				if strings.HasPrefix(e.Op, "health:") {
					holdOpen, heldUntil = false, e.VT
				}
			case "flag":
				if e.Flag && !flag {
					cnt = 0 // new term
					pendingIdx = -1
				}
				if !e.Flag && flag {
					cause := v.causeOf(idx)
					if cause == "health_check_failure" {
						res.Obs["c12.health_demotions"]++
						if cnt < M {
							res.viol("C12", "early", fmt.Sprintf("health-demotion-early:%d-of-%d", cnt, M), fmt.Sprintf("%s demoted by health mechanism after %d consecutive unhealthy results in this term (threshold %d)", is.Name, cnt, M), idx)
						}
						// demotion callback
						found := false
						// (at the same instant - or as much later as the harness held a user-code call
						// of the instance between the flag change and the callback)
						lim := e.VT + v.slack(e.VT, e.VT+time.Nanosecond)
						for j := idx; j < len(v.Ev) && v.Ev[j].VT <= lim; j++ {
							if v.Ev[j].Kind == "cb.demote" && v.Ev[j].Inst == is.Name {
								found = true
							}
						}
						if !found {
							res.viol("C12", "callback", "health-demotion-without-callback", is.Name+" health demotion without demotion callback", idx)
						}
					}
					pendingIdx = -1
					cnt = 0
				}
				flag = e.Flag
			case "health.check":
				res.Obs["c12.checks"]++
				if pendingIdx >= 0 && flag {
					res.viol("C12", "late", fmt.Sprintf("health-demotion-late:%d", M), fmt.Sprintf("%s still leader at the next check although %d consecutive unhealthy results were reported", is.Name, M), pendingIdx)
					pendingIdx = -1
				}
				if e.N <= 0 || time.Duration(e.N) > 100*time.Millisecond {
					res.viol("C12", "deadline", "health-context-deadline", fmt.Sprintf("%s health check context deadline in %v", is.Name, time.Duration(e.N)), idx)
				}
				switch e.S {
				case "u", "s":
					cnt++
					if cnt == M && flag {
						pendingIdx = idx
					}
				default:
					cnt = 0
				}
			case "quiescent":
				// by the first quiescent point strictly after the check that reached M has returned
				if pendingIdx >= 0 && flag && e.VT > v.Ev[pendingIdx].VT+100*time.Millisecond && !holdOpen && e.VT > heldUntil {
					res.viol("C12", "late", fmt.Sprintf("health-demotion-late:%d", M), fmt.Sprintf("%s still leader at %v although %d consecutive unhealthy results were reported by %v", is.Name, e.VT, M, v.Ev[pendingIdx].VT), pendingIdx)
					pendingIdx = -1
				}
			}
		}
		if len(v.Terms[is.Name]) >= 2 {
			res.Obs["c12.multi_term_histories"]++
		}
		// re-election after a health demotion (single-instance group, healthy afterwards)
		single := true
		for _, o := range v.Spec.Insts {
			if o.Name != is.Name && o.Group == is.Group {
				single = false
			}
		}
		if single && v.End >= 0 {
			B := periodicCheck + jitterMaxD + 8*v.maxLeg() + is.DemoteDelay + time.Millisecond
			ts := v.Terms[is.Name]
			for k, t := range ts {
				if t.Cause != "health_check_failure" {
					continue
				}
				dl := t.DownVT + v.Spec.TTL + B
				dl = v.extend(t.DownVT, dl)
				if dl > v.End {
					continue
				}
				stop := false
				for _, a := range v.APIs {
					if a.Inst == is.Name && a.IsStop() && a.CallVT <= dl && a.CallVT >= t.DownVT {
						stop = true
					}
				}
				if overlaps(fiv12[is.Name], t.DownVT, dl) {
					stop = true // a store fault on the instance inside the window
				}
				// somebody else (the outside party) occupying or touching the key in the window
				// legitimately delays re-election
				for _, m := range v.Muts {
					if m.Key == is.Group && m.By != is.Name && m.Op != "Expired" && m.VT >= t.DownVT-v.Spec.TTL && m.VT <= dl {
						stop = true
					}
				}
				if stop {
					continue
				}
				res.Obs["c12.reelection_obligations"]++
				if k+1 >= len(ts) || ts[k+1].UpVT > dl {
					res.viol("C12", "reelection", "not-reelected-after-health-demotion", fmt.Sprintf("%s demoted for health at %v and not re-elected by %v (TTL+B)", is.Name, t.DownVT, dl), t.Down)
				}
			}
		}
	}
}

// ---------------------------------------------------------------------------
// C13 — arbitrary record contents and interference never crash, hang or promote
// ---------------------------------------------------------------------------

func (v *View) checkC13(res *Result) {
	if !v.Spec.HasTag("hostile") {
		return
	}
	for idx, e := range v.Ev {
		switch e.Kind {
		case "final", "census":
			res.Obs["c13.census"]++
			if e.Call > 4 {
				res.viol("C13", "recursion", "unbounded-recursion:"+normFrames(e.S), fmt.Sprintf("a goroutine's stack holds the same library function %d times: %s", e.Call, e.S), idx)
			}
		case "flag":
			if !e.Flag {
				continue
			}
			res.Obs["c13.claims"]++
			// the claim must be produced by the instance's own successful acquisition write
			own := false
			for _, m := range v.Muts {
				if m.Seq > idx {
					break
				}
				if m.By == e.Inst && (m.Op == "Create" || m.Op == "Update") {
					_, tok, _ := DecodeIDToken([]byte(m.Val))
					if tok == e.Token {
						own = true
					}
				}
			}
			if !own {
				res.viol("C13", "claim-without-own-write", "claim-without-own-write", fmt.Sprintf("%s claims leadership with token %s that it never wrote; live record id=%s", e.Inst, e.Token, e.RecID), idx)
			}
		}
	}
	// a live record written by the outside party may be replaced only by legitimate
	// preemption: takeover enabled and own priority strictly greater than the stored one
	// (compared as numbers: 1e30 is a priority too); records that are no JSON object or
	// carry no usable priority are judged by the library's own reading elsewhere
	for _, m := range v.Muts {
		if m.Op != "Update" || m.By == "outside" || m.PrevBy != "outside" || m.PrevOp != "PUT" {
			continue
		}
		is := v.instSpec(m.By)
		pp := DecodePayload([]byte(m.PrevVal))
		if is == nil || !pp.Object || len(pp.IDs) == 0 || pp.HasID(m.By) {
			continue
		}
		res.Obs["c13.replaced_outside_records"]++
		maxPrio := 0.0
		for _, x := range pp.Prios {
			if x > maxPrio {
				maxPrio = x
			}
		}
		if !is.Takeover || !(float64(is.Priority) > maxPrio) {
			res.viol("C13", "claim-over-foreign-record", fmt.Sprintf("illegitimate-takeover-of-outside-record:takeover=%v", is.Takeover),
				fmt.Sprintf("%s (takeover=%v prio=%d) replaced a live record it did not write: %q", m.By, is.Takeover, is.Priority, truncS(m.PrevVal, 120)), m.Seq)
		}
	}
	for _, m := range v.Muts {
		if m.By == "outside" {
			res.Obs["c13.outside."+m.Op]++
			if m.Op == "Put" {
				res.Obs["c13.payload."+payloadKind(m.Val)]++
			}
			// role of the victim
			owner, otok, _ := DecodeIDToken([]byte(m.PrevVal))
			if t := v.termAt(owner, m.Seq); t != nil && t.Token == otok {
				res.Obs["c13.tamper_under_leader"]++
			}
		}
	}
	for _, is := range v.Spec.Insts {
		if is.Takeover {
			res.Obs["c13.takeover_candidates"]++
		}
	}
}

// ---------------------------------------------------------------------------
// C17 — acquisition rounds (SIM traces)
// ---------------------------------------------------------------------------

func (v *View) checkC17rounds(res *Result) {
	type round struct {
		g      uint64
		inst   string
		start  time.Duration
		idx    int
		jitter time.Duration
		n      int
		lastRt time.Duration // return time of the last store call on this goroutine
		lastI  int
		yield  time.Duration // harness-injected delay on this goroutine since then
	}
	open := map[uint64]*round{}
	for idx, e := range v.Ev {
		switch e.Kind {
		case "log":
			if e.Msg == "attempting_acquire_with_retry" {
				j, _ := time.ParseDuration(e.Fields["initial_jitter"])
				open[e.G] = &round{g: e.G, inst: e.Inst, start: e.VT, idx: idx, jitter: j}
				res.Obs["c17.rounds"]++
			}
		case "store.return":
			if r := open[e.G]; r != nil {
				r.lastRt = e.VT
				r.yield = 0
			}
		case "yield":
			if r := open[e.G]; r != nil {
				r.yield += time.Duration(e.N)
			}
		case "store.issue":
			r := open[e.G]
			if r == nil || e.Op != "Create" {
				continue
			}
			if r.n == 0 {
				d := e.VT - r.start
				if d < jitterMinD || d > jitterMaxD+r.yield {
					res.viol("C17", "round-jitter", "round-initial-wait-out-of-range", fmt.Sprintf("%s round at %v: first attempt after %v (must be 10-100ms)", r.inst, r.start, d), idx)
				}
			} else {
				gap := e.VT - r.lastRt
				ideal := 50 * time.Millisecond << uint(r.n-1)
				if ideal > 5*time.Second {
					ideal = 5 * time.Second
				}
				lo := time.Duration(float64(ideal)*0.9) - time.Microsecond
				hi := time.Duration(float64(ideal)*1.1) + time.Microsecond + r.yield
				if gap < lo || gap > hi {
					res.viol("C17", "round-backoff", fmt.Sprintf("round-backoff-out-of-range:attempt%d", r.n), fmt.Sprintf("%s round at %v: wait before attempt %d was %v, expected within 10%% of %v", r.inst, r.start, r.n+1, gap, ideal), idx)
				}
			}
			r.n++
			res.Obs["c17.round_attempts"]++
			if r.n == 5 {
				res.viol("C17", "round-attempts", "round-more-than-4-attempts", fmt.Sprintf("%s round at %v made a 5th attempt", r.inst, r.start), idx)
			}
			if r.n > 1 {
				res.Obs["c17.round_retries"]++
			}
		}
	}
	_ = strconv.Itoa
}

func truncS(s string, n int) string {
	if len(s) > n {
		return s[:n] + "..."
	}
	return s
}
