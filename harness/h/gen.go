package h

import (
	"fmt"
	"hash/fnv"
	"math/rand/v2"
	"sort"
	"time"
)

const (
	ms  = time.Millisecond
	sec = time.Second
)

type rng struct{ *rand.Rand }

func newRng(seed uint64, class string, k int) rng {
	h := fnv.New64a()
	h.Write([]byte(class))
	return rng{rand.New(rand.NewPCG(seed*0x9E3779B97F4A7C15+uint64(k), h.Sum64()))}
}

func (r rng) pickD(ds ...time.Duration) time.Duration { return ds[r.IntN(len(ds))] }
func (r rng) pickI(xs ...int) int                     { return xs[r.IntN(len(xs))] }
func (r rng) pickF(xs ...float64) float64             { return xs[r.IntN(len(xs))] }
func (r rng) pickS(xs ...string) string               { return xs[r.IntN(len(xs))] }
func (r rng) chance(p float64) bool                   { return r.Float64() < p }
func (r rng) dur(lo, hi time.Duration) time.Duration {
	if hi <= lo {
		return lo
	}
	return lo + time.Duration(r.Int64N(int64(hi-lo)+1))
}

// Gen returns scenario k of a class for a seed. Pure function of its arguments.
func Gen(class string, seed uint64, k int) *Spec {
	r := newRng(seed, class, k)
	var s *Spec
	switch class {
	case "benign":
		s = genBenign(r)
	default:
		if g, ok := generators[class]; ok {
			s = g(r, k)
		} else {
			panic("unknown class " + class)
		}
	}
	s.Class = class
	s.Seed = seed
	s.Name = fmt.Sprintf("%s-%d-%d", class, seed, k)
	// group = an At-based action followed by its After-chained actions; groups are
	// ordered by the At of their head, chains stay attached
	var groups [][]Action
	for _, a := range s.Actions {
		if (a.After > 0 || a.Chain) && len(groups) > 0 {
			groups[len(groups)-1] = append(groups[len(groups)-1], a)
		} else {
			groups = append(groups, []Action{a})
		}
	}
	sort.SliceStable(groups, func(i, j int) bool { return groups[i][0].At < groups[j][0].At })
	s.Actions = s.Actions[:0]
	for _, g := range groups {
		s.Actions = append(s.Actions, g...)
	}
	return s
}

var generators = map[string]func(r rng, k int) *Spec{}

// benignLatency picks a latency profile whose whole call (2 legs) stays below H/2.
func benignLatency(r rng, h time.Duration) Latency {
	switch r.IntN(4) {
	case 0:
		return Latency{}
	case 1:
		return Latency{Min: 0, Max: 2 * ms}
	case 2:
		return Latency{Min: 0, Max: h / 8}
	default:
		return Latency{Min: h / 8, Max: h/4 - ms}
	}
}

func randWatch(r rng) WatchPolicy {
	return WatchPolicy{
		DelayMax: r.pickD(0, 0, 50*ms, 500*ms, 3*sec),
		DropP:    r.pickF(0, 0, 0.3, 1.0),
		DupP:     r.pickF(0, 0, 0.3),
	}
}

func randStop(r rng) *StopVariant {
	if r.chance(0.4) {
		return &StopVariant{Plain: true}
	}
	v := &StopVariant{DeleteKey: r.chance(0.6), Wait: r.chance(0.5)}
	switch r.IntN(6) {
	case 0:
		v.Timeout = 1 * sec
	case 1:
		v.Timeout = 10 * sec
	case 2:
		v.CtxKind, v.CtxD = "deadline", 8*sec
	case 3:
		v.CtxKind, v.CtxD, v.Timeout = "cancelmid", 6*sec, 10*sec
	}
	return v
}

func genBenign(r rng) *Spec {
	n := 1 + r.IntN(5)
	groups := 1
	if n >= 3 && r.chance(0.3) {
		groups = 2
	}
	hBase := r.pickD(100*ms, 250*ms, 500*ms, 1*sec, 2*sec)
	ratio := r.pickI(3, 4, 5, 10)
	s := &Spec{Benign: true, NoPreempt: true, TTL: time.Duration(ratio) * hBase}
	minH := hBase
	// group names are free text (the record key of a group is its name): in a third of the
	// two-group scenarios the two names differ only in characters a key-sanitiser would fold
	gname := func(j int) string { return fmt.Sprintf("g%d", j) }
	if groups == 2 && r.chance(0.35) {
		pair := [][2]string{{"team:a", "team_a"}, {"reports.eu.", "reports.eu"}, {"x y", "x_y"}, {"Prod", "prod"}, {" g", "g"}, {"a/b", "a_b"}}[r.IntN(6)]
		gname = func(j int) string { return pair[j] }
	}
	for i := 0; i < n; i++ {
		is := InstSpec{Name: fmt.Sprintf("i%d", i), Group: gname(i % groups), H: hBase}
		if r.chance(0.2) {
			is.H = hBase / 2
			if is.H < minH {
				minH = is.H
			}
		}
		is.ValInterval = r.pickD(0, 0, is.H, 2*is.H)
		is.BlockPromote = r.chance(0.5)
		is.DemoteDelay = r.pickD(0, 0, 50*ms)
		s.Insts = append(s.Insts, is)
	}
	if r.chance(0.3) {
		// priority takeover switched on everywhere with one and the same priority: nobody
		// can preempt anybody, so the "no preemption" premise still holds, but the
		// takeover code paths run
		pr := 1 + r.IntN(3)
		for i := range s.Insts {
			s.Insts[i].Priority, s.Insts[i].Takeover = pr, true
		}
	}
	s.Lat = benignLatency(r, minH)
	s.Watch = randWatch(r)
	T := 40 * hBase
	if T < 12*sec {
		T = 12 * sec
	}
	for i := 0; i < n; i++ {
		s.Actions = append(s.Actions, Action{At: r.dur(0, 3*sec), Kind: "start", Inst: s.Insts[i].Name})
	}
	m := r.IntN(7)
	for j := 0; j < m; j++ {
		a := Action{At: r.dur(0, T), Inst: s.Insts[r.IntN(n)].Name}
		switch r.IntN(5) {
		case 0, 1:
			a.Kind, a.Stop = "stop", randStop(r)
		case 2:
			a.Kind, a.Stop = "restart", randStop(r)
		case 3:
			a.Kind = "start"
		default:
			a.Kind, a.Stop = "stop", &StopVariant{DeleteKey: true, Wait: r.chance(0.5)}
		}
		s.Actions = append(s.Actions, a)
	}
	if r.chance(0.5) {
		// preemption-sized delays at the in-library windows (never long enough to
		// threaten the premise: a refresh delayed by H/8 is far from a lapse)
		s.YieldP, s.YieldMax = 0.3, minH/8
	}
	s.Duration = T/2 + 8*sec
	s.Sample = hBase / 2
	if s.Sample > 250*ms {
		s.Sample = 250 * ms
	}
	return s
}
