// Package h is the harness library: trace, reference store, scenario specs,
// the synctest runner and the per-property oracles.
package h

import (
	"bytes"
	"runtime"
	"strconv"
	"sync"
	"sync/atomic"
	"time"
)

// Event is one entry of the totally ordered trace. Only the fields relevant to
// Kind are set. The trace mutex is a leaf lock: nothing is called while held.
type Event struct {
	Seq  int           `json:"seq"`
	VT   time.Duration `json:"vt"`
	G    uint64        `json:"g"`
	Inst string        `json:"inst,omitempty"` // instance / client name
	Kind string        `json:"kind"`

	// store.* events
	Op      string `json:"op,omitempty"`
	Key     string `json:"key,omitempty"`
	Call    int    `json:"call,omitempty"` // call id, links issue/apply/return
	Exp     uint64 `json:"exp,omitempty"`  // expected revision (Update)
	Rev     uint64 `json:"rev,omitempty"`  // resulting / returned revision
	OK      bool   `json:"ok,omitempty"`
	Err     string `json:"err,omitempty"`
	Val     string `json:"val,omitempty"` // value written / returned
	Fault   string `json:"fault,omitempty"`
	PrevRev uint64 `json:"prev_rev,omitempty"` // predecessor message at apply
	PrevVal string `json:"prev_val,omitempty"`
	PrevBy  string `json:"prev_by,omitempty"`
	PrevOp  string `json:"prev_op,omitempty"` // PUT / DEL / "" (absent or expired)

	// log events
	Msg    string            `json:"msg,omitempty"`
	Fields map[string]string `json:"fields,omitempty"`

	// flag / transition / callbacks / api
	Flag   bool     `json:"flag,omitempty"`
	From   string   `json:"from,omitempty"`
	To     string   `json:"to,omitempty"`
	Token  string   `json:"token,omitempty"`
	Ctx    int      `json:"ctx,omitempty"`
	API    string   `json:"api,omitempty"`
	Ret    string   `json:"ret,omitempty"`
	Others []string `json:"others,omitempty"` // other instances claiming at a flag event
	RecID  string   `json:"rec_id,omitempty"` // live record id/token at a flag event
	RecTok string   `json:"rec_tok,omitempty"`
	RecOK  bool     `json:"rec_ok,omitempty"`

	// quiescent snapshot
	Snap *Snapshot `json:"snap,omitempty"`
	// generic numeric payload (health tick deadline, etc.)
	N int64  `json:"n,omitempty"`
	S string `json:"s,omitempty"`
}

// Snapshot is taken at a quiescent point for one instance.
type Snapshot struct {
	State     string `json:"state"`
	IsLeader  bool   `json:"is_leader"`
	LeaderID  string `json:"leader_id"`
	Token     string `json:"token"`
	Revision  uint64 `json:"revision"`
	APILeader bool   `json:"api_leader"`
	APIToken  string `json:"api_token"`
	APILID    string `json:"api_lid"`
	Gauge     int    `json:"gauge"` // last SetIsLeader value, -1 if never
	InStop    bool   `json:"in_stop"`
	LibG      int    `json:"lib_g"` // goroutines with library frames (global census)
}

type Trace struct {
	mu     sync.Mutex
	start  time.Time
	next   atomic.Int64
	Events []Event
}

func NewTrace() *Trace { return &Trace{start: time.Now()} }

// Now returns the (virtual) time since the trace began.
func (t *Trace) Now() time.Duration { return time.Since(t.start) }

// Add records e, stamping Seq/VT/G. Returns the sequence number.
//
// The position in the trace is taken by an atomic counter as the very first thing (a few
// nanoseconds after the caller got here); the slot is filled afterwards. Where two
// goroutines race to report - a callback entered on one goroutine, another goroutine woken
// by the first - neither the stack capture that yields the goroutine id (about a
// microsecond) nor waiting for the trace mutex (not FIFO under contention) may decide
// the order in which the two are recorded.
func (t *Trace) Add(e Event) int {
	n := int(t.next.Add(1) - 1)
	e.Seq = n
	e.VT = time.Since(t.start)
	Progress.Add(1)
	e.G = goid()
	t.mu.Lock()
	for len(t.Events) <= n {
		t.Events = append(t.Events, Event{Seq: len(t.Events), Kind: "unfilled"})
	}
	t.Events[n] = e
	t.mu.Unlock()
	return n
}

func (t *Trace) Len() int {
	t.mu.Lock()
	defer t.mu.Unlock()
	return len(t.Events)
}

// Snapshot returns a copy of the events so far.
func (t *Trace) Copy() []Event {
	t.mu.Lock()
	defer t.mu.Unlock()
	out := make([]Event, len(t.Events))
	copy(out, t.Events)
	return out
}

var goidPrefix = []byte("goroutine ")

func goid() uint64 {
	var buf [64]byte
	n := runtime.Stack(buf[:], false)
	b := buf[:n]
	b = bytes.TrimPrefix(b, goidPrefix)
	i := bytes.IndexByte(b, ' ')
	if i < 0 {
		return 0
	}
	id, _ := strconv.ParseUint(string(b[:i]), 10, 64)
	return id
}
