package h

import (
	"bytes"
	"encoding/json"
	"strings"
)

// Payload is what an independent, deliberately permissive decoder finds in a
// record value: every top-level occurrence of an "id"/"token"/"priority" key
// (any letter case, duplicates included). It is the weakest reading, so an
// oracle built on it never demands more than any sensible decoder would.
type Payload struct {
	Object bool
	IDs    []string
	Tokens []string
	Prios  []float64
	// PrioInt: the same occurrences, exactly, where the JSON number is an integer that fits
	// in 64 bits (a priority above 2^53 does not survive a float64); PrioIsInt says which
	PrioInt   []int64
	PrioIsInt []bool
}

func DecodePayload(val []byte) Payload {
	var p Payload
	dec := json.NewDecoder(bytes.NewReader(val))
	dec.UseNumber()
	tok, err := dec.Token()
	if err != nil {
		return p
	}
	if d, ok := tok.(json.Delim); !ok || d != '{' {
		return p
	}
	for dec.More() {
		kt, err := dec.Token()
		if err != nil {
			return p
		}
		k, ok := kt.(string)
		if !ok {
			return p
		}
		var raw json.RawMessage
		if err := dec.Decode(&raw); err != nil {
			return p
		}
		switch strings.ToLower(k) {
		case "id":
			var s string
			if json.Unmarshal(raw, &s) == nil && len(raw) > 0 && raw[0] == '"' {
				p.IDs = append(p.IDs, s)
			}
		case "token":
			var s string
			if json.Unmarshal(raw, &s) == nil && len(raw) > 0 && raw[0] == '"' {
				p.Tokens = append(p.Tokens, s)
			}
		case "priority":
			var f float64
			if json.Unmarshal(raw, &f) == nil {
				p.Prios = append(p.Prios, f)
				var n int64
				exact := json.Unmarshal(raw, &n) == nil
				p.PrioInt = append(p.PrioInt, n)
				p.PrioIsInt = append(p.PrioIsInt, exact)
			}
		}
	}
	if _, err := dec.Token(); err != nil { // closing brace
		return p
	}
	// trailing garbage makes the document invalid for encoding/json.Unmarshal
	if dec.More() {
		return p
	}
	if _, err := dec.Token(); err == nil {
		return p
	}
	p.Object = true
	return p
}

func (p Payload) HasID(id string) bool {
	for _, x := range p.IDs {
		if x == id {
			return true
		}
	}
	return false
}

func (p Payload) HasToken(t string) bool {
	for _, x := range p.Tokens {
		if x == t {
			return true
		}
	}
	return false
}

// DecodeIDToken returns the last id and token of a well-formed payload.
func DecodeIDToken(val []byte) (id, token string, prio int) {
	p := DecodePayload(val)
	if !p.Object {
		return
	}
	if n := len(p.IDs); n > 0 {
		id = p.IDs[n-1]
	}
	if n := len(p.Tokens); n > 0 {
		token = p.Tokens[n-1]
	}
	if n := len(p.Prios); n > 0 {
		prio = int(p.Prios[n-1])
		if p.PrioIsInt[n-1] {
			prio = int(p.PrioInt[n-1])
		}
	}
	return
}
