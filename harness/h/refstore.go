package h

import (
	"context"
	"errors"
	"fmt"
	"math/rand/v2"
	"strings"
	"sync"
	"time"

	leader "github.com/ali-assar/NATS-Leader-Election/leader"
	"github.com/nats-io/nats.go"
)

// ---------------------------------------------------------------------------
// Sequential model of one JetStream KV bucket (history 1, MaxAge = TTL).
// Calibrated against the embedded nats-server by the C14 differential check.
// ---------------------------------------------------------------------------

type Msg struct {
	Seq uint64
	Val []byte
	Op  string // "PUT" | "DEL"
	At  time.Time
	By  string
}

// Model is the pure sequential part (no delays, no faults). It is used directly
// by the C14 differential/porcupine checks and wrapped by Store for the SIM engine.
type Model struct {
	Seq    uint64
	Keys   map[string]*Msg
	MaxAge time.Duration
}

func NewModel(maxAge time.Duration) *Model {
	return &Model{Keys: map[string]*Msg{}, MaxAge: maxAge}
}

// last returns the last unexpired message of k (tombstones included) or nil.
func (m *Model) last(k string, now time.Time) *Msg {
	x := m.Keys[k]
	if x == nil {
		return nil
	}
	if m.MaxAge > 0 && !now.Before(x.At.Add(m.MaxAge)) {
		return nil
	}
	return x
}

// Live returns the live value of k or nil.
func (m *Model) Live(k string, now time.Time) *Msg {
	x := m.last(k, now)
	if x == nil || x.Op != "PUT" {
		return nil
	}
	return x
}

func wrongSeq(actual uint64) *nats.APIError {
	return &nats.APIError{Code: 400, ErrorCode: nats.JSErrCodeStreamWrongLastSequence,
		Description: fmt.Sprintf("wrong last sequence: %d", actual)}
}

func (m *Model) put(k string, v []byte, by string, now time.Time, op string) uint64 {
	m.Seq++
	vv := append([]byte(nil), v...)
	m.Keys[k] = &Msg{Seq: m.Seq, Val: vv, Op: op, At: now, By: by}
	return m.Seq
}

func (m *Model) Create(k string, v []byte, by string, now time.Time) (uint64, error) {
	if x := m.Live(k, now); x != nil {
		return 0, fmt.Errorf("%w: %s", wrongSeq(x.Seq), "key exists")
	}
	return m.put(k, v, by, now, "PUT"), nil
}

func (m *Model) Update(k string, v []byte, rev uint64, by string, now time.Time) (uint64, error) {
	var cur uint64
	if x := m.last(k, now); x != nil {
		cur = x.Seq
	}
	if cur != rev {
		return 0, wrongSeq(cur)
	}
	return m.put(k, v, by, now, "PUT"), nil
}

func (m *Model) Get(k string, now time.Time) (*Msg, error) {
	if x := m.Live(k, now); x != nil {
		return x, nil
	}
	return nil, nats.ErrKeyNotFound
}

func (m *Model) Delete(k string, by string, now time.Time) uint64 {
	return m.put(k, nil, by, now, "DEL")
}

// Purge / ForceExpire drop the message entirely (as MaxAge would).
func (m *Model) Drop(k string) { delete(m.Keys, k) }

// ---------------------------------------------------------------------------
// Delivery layer
// ---------------------------------------------------------------------------

type Latency struct {
	Min, Max time.Duration
	SpikeP   float64
	SpikeMax time.Duration
}

type WatchPolicy struct {
	DelayMax time.Duration
	DropP    float64
	DupP     float64
}

type FaultRule struct {
	Client  string        `json:"client"`
	Op      string        `json:"op,omitempty"` // "" = any
	From    time.Duration `json:"from,omitempty"`
	To      time.Duration `json:"to,omitempty"` // 0 = forever
	FromOrd int           `json:"from_ord,omitempty"`
	ToOrd   int           `json:"to_ord,omitempty"` // 0 = forever
	Kind    string        `json:"kind"`             // err | hang | acklost
	Err     string        `json:"err,omitempty"`
	Hang    time.Duration `json:"hang,omitempty"`
}

type BreakSpec struct {
	Name   string `json:"name"`
	Client string `json:"client"`
	Op     string `json:"op"`
	Nth    int    `json:"nth"`   // n-th matching call after arming (>=1)
	Phase  string `json:"phase"` // req | resp
	Armed  bool   `json:"armed"` // armed from the start
}

type breakpoint struct {
	BreakSpec
	armed bool
	seen  int
	hit   chan struct{}
	rel   chan struct{}
	isHit bool
}

type Entry struct {
	K string
	V []byte
	R uint64
}

func (e *Entry) Key() string      { return e.K }
func (e *Entry) Value() []byte    { return e.V }
func (e *Entry) Revision() uint64 { return e.R }

type Store struct {
	mu       sync.Mutex
	tr       *Trace
	m        *Model
	rng      *rand.Rand
	lat      Latency
	wp       WatchPolicy
	hang     time.Duration
	calls    int
	clients  map[string]*Client
	rules    []FaultRule
	breaks   map[string]*breakpoint
	watchers []*watcher
	timers   []*time.Timer
	closed   chan struct{}
	inflight sync.WaitGroup
	// OnChange is called under mu after every change of liveness/content of key.
	OnChange func(key string, why string)
}

func NewStore(tr *Trace, maxAge time.Duration, seed uint64, lat Latency, wp WatchPolicy) *Store {
	return &Store{
		tr: tr, m: NewModel(maxAge), rng: rand.New(rand.NewPCG(seed, 0x5eed)),
		lat: lat, wp: wp, hang: 5 * time.Second,
		clients: map[string]*Client{}, breaks: map[string]*breakpoint{},
		closed: make(chan struct{}),
	}
}

func (s *Store) AddRule(r FaultRule) {
	s.mu.Lock()
	s.rules = append(s.rules, r)
	s.mu.Unlock()
}

func (s *Store) AddBreak(b BreakSpec) {
	s.mu.Lock()
	s.breaks[b.Name] = &breakpoint{BreakSpec: b, armed: b.Armed, hit: make(chan struct{}), rel: make(chan struct{})}
	s.mu.Unlock()
}

func (s *Store) Arm(name string) {
	s.mu.Lock()
	if b := s.breaks[name]; b != nil {
		b.armed = true
	}
	s.mu.Unlock()
}

// HitChan / Release: driver side of a breakpoint.
func (s *Store) HitChan(name string) <-chan struct{} {
	s.mu.Lock()
	defer s.mu.Unlock()
	if b := s.breaks[name]; b != nil {
		return b.hit
	}
	return nil
}

func (s *Store) Release(name string) {
	s.mu.Lock()
	b := s.breaks[name]
	if b != nil {
		b.armed = false
		select {
		case <-b.rel:
		default:
			close(b.rel)
		}
	}
	s.mu.Unlock()
}

func (s *Store) ReleaseAll() {
	s.mu.Lock()
	for _, b := range s.breaks {
		b.armed = false
		select {
		case <-b.rel:
		default:
			close(b.rel)
		}
	}
	s.mu.Unlock()
}

// LiveRecord returns the live value of key (nil if none). Caller must NOT hold mu.
func (s *Store) LiveRecord(key string) *Msg {
	s.mu.Lock()
	defer s.mu.Unlock()
	return s.m.Live(key, time.Now())
}

func (s *Store) liveLocked(key string) *Msg { return s.m.Live(key, time.Now()) }

// Lock / Unlock expose the store mutex so that a monitor can read the record
// atomically with other state.
func (s *Store) Lock()   { s.mu.Lock() }
func (s *Store) Unlock() { s.mu.Unlock() }

// LiveLocked requires the store mutex.
func (s *Store) LiveLocked(key string) *Msg { return s.liveLocked(key) }

type Client struct {
	s           *Store
	name        string
	ords        map[string]int
	partitioned bool
	heal        chan struct{}
}

func (s *Store) Client(name string) *Client {
	s.mu.Lock()
	defer s.mu.Unlock()
	if c := s.clients[name]; c != nil {
		return c
	}
	c := &Client{s: s, name: name, ords: map[string]int{}, heal: make(chan struct{})}
	s.clients[name] = c
	return c
}

func (s *Store) SetPartition(name string, on bool) {
	c := s.Client(name)
	s.mu.Lock()
	if on && !c.partitioned {
		c.partitioned = true
		c.heal = make(chan struct{})
	} else if !on && c.partitioned {
		c.partitioned = false
		close(c.heal)
	}
	s.mu.Unlock()
}

var errByName = map[string]error{
	"timeout":      nats.ErrTimeout,
	"noresponders": nats.ErrNoResponders,
	"connclosed":   nats.ErrConnectionClosed,
	"io":           errors.New("nats: i/o timeout"),
	"disconnected": nats.ErrDisconnected,
	"nostream":     nats.ErrNoStreamResponse,
	// what a client with per-request contexts says when one of them ends (the election's own
	// contexts are alive): the operation failed, nothing more
	"canceled": fmt.Errorf("nats: request abandoned: %w", context.Canceled),
	"deadline": fmt.Errorf("nats: request: %w", context.DeadlineExceeded),
}

type plan struct {
	d1, d2 time.Duration
	fault  string
	err    error
	hang   time.Duration
	ord    int
}

func (s *Store) legLocked() time.Duration {
	l := s.lat
	if l.Max <= l.Min {
		return l.Min
	}
	if l.SpikeP > 0 && s.rng.Float64() < l.SpikeP && l.SpikeMax > l.Max {
		return l.Max + time.Duration(s.rng.Int64N(int64(l.SpikeMax-l.Max)))
	}
	return l.Min + time.Duration(s.rng.Int64N(int64(l.Max-l.Min)+1))
}

func (c *Client) planLocked(op string) plan {
	s := c.s
	c.ords[op]++
	p := plan{d1: s.legLocked(), d2: s.legLocked(), ord: c.ords[op], hang: s.hang}
	now := s.tr.Now()
	if c.partitioned {
		p.fault = "hang"
		p.err = nats.ErrTimeout
		return p
	}
	for _, r := range s.rules {
		if r.Client != c.name && r.Client != "*" {
			continue
		}
		if r.Op != "" && r.Op != op {
			continue
		}
		if now < r.From || (r.To > 0 && now >= r.To) {
			continue
		}
		if r.FromOrd > 0 && p.ord < r.FromOrd {
			continue
		}
		if r.ToOrd > 0 && p.ord > r.ToOrd {
			continue
		}
		p.fault = r.Kind
		p.err = errByName[r.Err]
		if p.err == nil {
			p.err = nats.ErrTimeout
		}
		if r.Hang > 0 {
			p.hang = r.Hang
		}
		break
	}
	return p
}

// atPhase parks the caller if an armed breakpoint matches.
func (c *Client) atPhase(op string, phase string) {
	s := c.s
	s.mu.Lock()
	var hitb *breakpoint
	for _, b := range s.breaks {
		if !b.armed || b.isHit || b.Client != c.name || !opMatches(b.Op, op) || b.Phase != phase {
			continue
		}
		b.seen++
		n := b.Nth
		if n <= 0 {
			n = 1
		}
		if b.seen == n {
			b.isHit = true
			hitb = b
			break
		}
	}
	s.mu.Unlock()
	if hitb != nil {
		s.tr.Add(Event{Kind: "break.hit", Inst: c.name, Op: op, S: hitb.Name + ":" + phase})
		close(hitb.hit)
		select {
		case <-hitb.rel:
		case <-s.closed:
		}
		s.tr.Add(Event{Kind: "break.release", Inst: c.name, Op: op, S: hitb.Name})
	}
}

func (s *Store) sleep(d time.Duration) {
	if d <= 0 {
		return
	}
	t := time.NewTimer(d)
	select {
	case <-t.C:
	case <-s.closed:
		t.Stop()
	}
}

func prevFields(e *Event, x *Msg) {
	if x == nil {
		return
	}
	e.PrevRev = x.Seq
	e.PrevVal = string(x.Val)
	e.PrevBy = x.By
	e.PrevOp = x.Op
}

// do runs one operation through the legs. apply is invoked under the store mutex.
func (c *Client) do(op, key string, val []byte, exp uint64) (rev uint64, ent *Entry, err error) {
	s := c.s
	s.inflight.Add(1)
	defer s.inflight.Done()
	s.mu.Lock()
	s.calls++
	id := s.calls
	p := c.planLocked(op)
	s.mu.Unlock()
	s.tr.Add(Event{Kind: "store.issue", Inst: c.name, Op: op, Key: key, Call: id, Exp: exp, Val: string(val), Fault: p.fault, N: int64(p.ord)})
	ret := func(rev uint64, ent *Entry, err error) (uint64, *Entry, error) {
		e := Event{Kind: "store.return", Inst: c.name, Op: op, Key: key, Call: id, Rev: rev, OK: err == nil, Fault: p.fault, N: int64(p.ord)}
		if err != nil {
			e.Err = err.Error()
		}
		if ent != nil {
			e.Val = string(ent.V)
			e.Rev = ent.R
		}
		s.tr.Add(e)
		return rev, ent, err
	}
	s.sleep(p.d1)
	c.atPhase(op, "req")
	switch p.fault {
	case "err":
		return ret(0, nil, p.err)
	case "hang":
		s.sleep(p.hang)
		return ret(0, nil, p.err)
	}
	// apply
	s.mu.Lock()
	now := time.Now()
	ae := Event{Kind: "store.apply", Inst: c.name, Op: op, Key: key, Call: id, Exp: exp, Val: string(val), Fault: p.fault, N: int64(p.ord)}
	prevFields(&ae, s.m.last(key, now))
	switch op {
	case "Create":
		rev, err = s.m.Create(key, val, c.name, now)
	case "Update":
		rev, err = s.m.Update(key, val, exp, c.name, now)
	case "Delete":
		rev = s.m.Delete(key, c.name, now)
	case "Get":
		var x *Msg
		x, err = s.m.Get(key, now)
		if x != nil {
			ent = &Entry{K: key, V: append([]byte(nil), x.Val...), R: x.Seq}
			rev = x.Seq
			ae.Val = string(x.Val)
		}
	}
	ae.Rev = rev
	ae.OK = err == nil
	if err != nil {
		ae.Err = err.Error()
	}
	s.tr.Add(ae)
	if err == nil && op != "Get" {
		s.changedLocked(key, op)
	}
	s.mu.Unlock()
	c.atPhase(op, "resp")
	s.sleep(p.d2)
	if p.fault == "acklost" {
		s.sleep(p.hang)
		return ret(0, nil, p.err)
	}
	return ret(rev, ent, err)
}

// changedLocked: a PUT/DEL was applied to key. Schedules the expiry marker,
// notifies watchers and the OnChange hook. Requires mu.
func (s *Store) changedLocked(key, why string) {
	x := s.m.Keys[key]
	if x != nil && s.m.MaxAge > 0 {
		seq := x.Seq
		var tm *time.Timer
		tm = time.AfterFunc(s.m.MaxAge, func() {
			s.mu.Lock()
			defer s.mu.Unlock()
			select {
			case <-s.closed:
				return
			default:
			}
			if y := s.m.Keys[key]; y != nil && y.Seq == seq {
				e := Event{Kind: "store.expire", Key: key, Rev: seq, PrevBy: y.By, PrevVal: string(y.Val), PrevOp: y.Op}
				s.tr.Add(e)
				if s.OnChange != nil {
					s.OnChange(key, "expire")
				}
			}
		})
		s.timers = append(s.timers, tm)
	}
	if x != nil {
		for _, w := range s.watchers {
			if w.key == key && !w.stopped {
				w.enqueueLocked(&wev{ent: &Entry{K: key, V: append([]byte(nil), x.Val...), R: x.Seq}}, false)
			}
		}
	}
	if s.OnChange != nil {
		s.OnChange(key, why)
	}
}

func (c *Client) Create(key string, value []byte, opts ...interface{}) (uint64, error) {
	r, _, err := c.do("Create", key, value, 0)
	return r, err
}

func (c *Client) Update(key string, value []byte, rev uint64, opts ...interface{}) (uint64, error) {
	r, _, err := c.do("Update", key, value, rev)
	return r, err
}

func (c *Client) Get(key string) (leader.Entry, error) {
	_, e, err := c.do("Get", key, nil, 0)
	if err != nil || e == nil {
		return nil, err
	}
	return e, nil
}

func (c *Client) Delete(key string) error {
	_, _, err := c.do("Delete", key, nil, 0)
	return err
}

// ---------------------------------------------------------------------------
// Outside party (administrative, zero latency, never faulted)
// ---------------------------------------------------------------------------

func (s *Store) OutsidePut(key string, val []byte) uint64 {
	s.mu.Lock()
	defer s.mu.Unlock()
	now := time.Now()
	ae := Event{Kind: "store.apply", Inst: "outside", Op: "Put", Key: key, Val: string(val), OK: true}
	prevFields(&ae, s.m.last(key, now))
	rev := s.m.put(key, val, "outside", now, "PUT")
	ae.Rev = rev
	s.tr.Add(ae)
	s.changedLocked(key, "outside.put")
	return rev
}

func (s *Store) OutsideDelete(key string) {
	s.mu.Lock()
	defer s.mu.Unlock()
	now := time.Now()
	ae := Event{Kind: "store.apply", Inst: "outside", Op: "Delete", Key: key, OK: true}
	prevFields(&ae, s.m.last(key, now))
	ae.Rev = s.m.Delete(key, "outside", now)
	s.tr.Add(ae)
	s.changedLocked(key, "outside.delete")
}

// OutsideExpire drops the message as MaxAge would: no watch event.
func (s *Store) OutsideExpire(key string) {
	s.mu.Lock()
	defer s.mu.Unlock()
	now := time.Now()
	ae := Event{Kind: "store.apply", Inst: "outside", Op: "Expire", Key: key, OK: true}
	prevFields(&ae, s.m.last(key, now))
	s.m.Drop(key)
	s.tr.Add(ae)
	if s.OnChange != nil {
		s.OnChange(key, "outside.expire")
	}
}

// OutsideReset models the bucket being deleted and created again by an operator: every
// record is gone without any notification, the stream's sequence numbers start over at 1,
// and the watches on the old stream end.
func (s *Store) OutsideReset(key string) {
	s.mu.Lock()
	defer s.mu.Unlock()
	now := time.Now()
	ae := Event{Kind: "store.apply", Inst: "outside", Op: "Expire", Key: key, OK: true, S: "bucket-recreated"}
	prevFields(&ae, s.m.last(key, now))
	for k := range s.m.Keys {
		s.m.Drop(k)
	}
	s.m.Seq = 0
	s.tr.Add(ae)
	for _, w := range s.watchers {
		if !w.stopped && !w.closeCh {
			w.closeCh = true
			select {
			case w.wake <- struct{}{}:
			default:
			}
		}
	}
	if s.OnChange != nil {
		s.OnChange(key, "outside.expire")
	}
}

// ---------------------------------------------------------------------------
// Watchers
// ---------------------------------------------------------------------------

type wev struct {
	ent *Entry // nil = end-of-initial marker
	at  time.Time
}

type watcher struct {
	s       *Store
	c       *Client
	key     string
	ch      chan leader.Entry
	q       []*wev
	wake    chan struct{}
	stop    chan struct{}
	stopped bool
	lastAt  time.Time
	closeCh bool
}

func (w *watcher) enqueueLocked(ev *wev, initial bool) {
	s := w.s
	if !initial {
		if s.wp.DropP > 0 && s.rng.Float64() < s.wp.DropP {
			s.tr.Add(Event{Kind: "watch.drop", Inst: w.c.name, Key: w.key, Rev: ev.ent.R})
			return
		}
	}
	var d time.Duration
	if s.wp.DelayMax > 0 {
		d = time.Duration(s.rng.Int64N(int64(s.wp.DelayMax) + 1))
	}
	at := time.Now().Add(d)
	if at.Before(w.lastAt) {
		at = w.lastAt
	}
	w.lastAt = at
	ev.at = at
	w.q = append(w.q, ev)
	if !initial && s.wp.DupP > 0 && s.rng.Float64() < s.wp.DupP {
		w.q = append(w.q, &wev{ent: ev.ent, at: at})
	}
	select {
	case w.wake <- struct{}{}:
	default:
	}
}

func (w *watcher) feed() {
	s := w.s
	defer s.inflight.Done()
	for {
		s.mu.Lock()
		var ev *wev
		if len(w.q) > 0 {
			ev = w.q[0]
			w.q = w.q[1:]
		}
		closeNow := w.closeCh && ev == nil
		part := w.c.partitioned
		heal := w.c.heal
		s.mu.Unlock()
		if closeNow {
			close(w.ch)
			return
		}
		if ev == nil {
			select {
			case <-w.wake:
				continue
			case <-w.stop:
				return
			case <-s.closed:
				return
			}
		}
		if d := time.Until(ev.at); d > 0 {
			t := time.NewTimer(d)
			select {
			case <-t.C:
			case <-w.stop:
				t.Stop()
				return
			case <-s.closed:
				t.Stop()
				return
			}
		}
		if part {
			select {
			case <-heal:
			case <-w.stop:
				return
			case <-s.closed:
				return
			}
		}
		// (hold point: a notification on its way to this client can be held back by a breakpoint)
		w.c.atPhase("Deliver", "site")
		var out leader.Entry
		e := Event{Kind: "watch.deliver", Inst: w.c.name, Key: w.key}
		if ev.ent != nil {
			out = ev.ent
			e.Rev = ev.ent.R
			e.Val = string(ev.ent.V)
		} else {
			e.S = "nil-marker"
		}
		select {
		case w.ch <- out:
			s.tr.Add(e)
		case <-w.stop:
			return
		case <-s.closed:
			return
		}
	}
}

func (w *watcher) Updates() <-chan leader.Entry { return w.ch }

func (w *watcher) Stop() {
	w.s.mu.Lock()
	if !w.stopped {
		w.stopped = true
		close(w.stop)
	}
	w.s.mu.Unlock()
}

func (c *Client) Watch(key string, opts ...interface{}) (leader.Watcher, error) {
	s := c.s
	s.inflight.Add(1)
	defer s.inflight.Done()
	s.mu.Lock()
	s.calls++
	id := s.calls
	p := c.planLocked("Watch")
	s.mu.Unlock()
	s.tr.Add(Event{Kind: "store.issue", Inst: c.name, Op: "Watch", Key: key, Call: id, Fault: p.fault, N: int64(p.ord)})
	s.sleep(p.d1)
	c.atPhase("Watch", "req")
	if p.fault != "" {
		if p.fault != "err" {
			s.sleep(p.hang)
		}
		s.tr.Add(Event{Kind: "store.return", Inst: c.name, Op: "Watch", Key: key, Call: id, Err: p.err.Error(), Fault: p.fault})
		return nil, p.err
	}
	s.mu.Lock()
	w := &watcher{s: s, c: c, key: key, ch: make(chan leader.Entry, 64), wake: make(chan struct{}, 1), stop: make(chan struct{})}
	now := time.Now()
	if x := s.m.last(key, now); x != nil {
		w.enqueueLocked(&wev{ent: &Entry{K: key, V: append([]byte(nil), x.Val...), R: x.Seq}}, true)
	}
	w.enqueueLocked(&wev{}, true)
	s.watchers = append(s.watchers, w)
	s.tr.Add(Event{Kind: "store.apply", Inst: c.name, Op: "Watch", Key: key, Call: id, OK: true})
	s.inflight.Add(1)
	go w.feed()
	s.mu.Unlock()
	c.atPhase("Watch", "resp")
	s.sleep(p.d2)
	s.tr.Add(Event{Kind: "store.return", Inst: c.name, Op: "Watch", Key: key, Call: id, OK: true})
	return w, nil
}

// CloseWatchers closes the update channels of all active watchers of client
// (simulates a subscription that was closed by the server / connection).
func (s *Store) CloseWatchers(client string) int {
	s.mu.Lock()
	defer s.mu.Unlock()
	n := 0
	for _, w := range s.watchers {
		if w.c.name == client && !w.stopped && !w.closeCh {
			w.closeCh = true
			n++
			select {
			case w.wake <- struct{}{}:
			default:
			}
		}
	}
	return n
}

// OpenWatchers returns, per client, the number of watches that were handed out to the
// client and neither stopped by it nor ended from the store's side.
func (s *Store) OpenWatchers() map[string]int {
	s.mu.Lock()
	defer s.mu.Unlock()
	out := map[string]int{}
	for _, w := range s.watchers {
		if !w.stopped && !w.closeCh {
			out[w.c.name]++
		}
	}
	return out
}

// Close releases every parked or sleeping call and feeder, and waits for them.
func (s *Store) Close() {
	s.mu.Lock()
	select {
	case <-s.closed:
	default:
		close(s.closed)
	}
	for _, t := range s.timers {
		t.Stop()
	}
	s.mu.Unlock()
	s.inflight.Wait()
}

// InFlight waits until no store call is in progress (used before teardown so
// that in-flight operations return normally first).
func (s *Store) Calls() int {
	s.mu.Lock()
	defer s.mu.Unlock()
	return s.calls
}

// KnownLogs is the catalogue of the library's log messages (filled by the generators).
var KnownLogs = map[string]bool{}

// opMatches: exact, "log:*" (any log line) or "log:?new" (a log line whose message is
// not in the catalogue: one that a change to the library has introduced).
func opMatches(pat, op string) bool {
	switch pat {
	case op:
		return true
	case "log:*":
		return strings.HasPrefix(op, "log:")
	case "log:?new":
		return strings.HasPrefix(op, "log:") && !KnownLogs[op[4:]]
	}
	return false
}
