package h

import (
	"fmt"
	"strconv"
	"strings"
	"sync"
	"time"
)

// Check runs every offline oracle that applies to the spec over the finished trace.
func Check(spec *Spec, ev []Event) *Result {
	res := &Result{Name: spec.Name, Class: spec.Class, Seed: spec.Seed, Events: len(ev), Obs: map[string]int{}, FP: map[string]string{}}
	v := NewView(spec, ev)
	for _, e := range ev {
		if e.Kind == "harness.error" {
			res.Inconclusive = "harness error: " + e.S
			return res
		}
	}
	v.checkC01(res)
	v.checkC02(res)
	v.checkC05(res)
	v.checkC07(res)
	v.checkC08(res)
	v.checkC18(res)
	v.checkC19(res)
	v.checkC09(res)
	v.checkC03(res)
	v.checkC04(res)
	v.checkC06(res)
	v.checkC10(res)
	v.checkC11(res)
	v.checkC12(res)
	v.checkC13(res)
	v.checkC17rounds(res)
	v.fingerprints(res)
	return res
}

func (v *View) instSpec(name string) *InstSpec { return v.Spec.Inst(name) }

// ---------------------------------------------------------------------------
// C01 — record changed only by its owner or a legitimate successor
// ---------------------------------------------------------------------------

func (v *View) checkC01(res *Result) {
	for _, m := range v.Muts {
		if m.Op == "Expired" {
			res.Obs["c01.expiries"]++
			continue
		}
		if m.By == "outside" {
			res.Obs["c01.outside_writes"]++
			continue
		}
		is := v.instSpec(m.By)
		if is == nil {
			continue
		}
		res.Obs["c01.mutations"]++
		if m.Key != is.Group {
			res.viol("C01", "cross-group", "cross-group:"+m.Op, fmt.Sprintf("%s (group %s) changed key %s", m.By, is.Group, m.Key), m.Seq)
			continue
		}
		prevLive := m.PrevOp == "PUT"
		pid, ptok, pprio := DecodeIDToken([]byte(m.PrevVal))
		nid, ntok, _ := DecodeIDToken([]byte(m.Val))
		cause := v.causeBefore(m.Seq, m.G, m.By)
		switch m.Op {
		case "Create":
			res.Obs["c01.creations"]++
			if prevLive {
				res.viol("C01", "create-on-live", "create-on-live", "model accepted a create on a live record", m.Seq)
			}
			if nid != m.By {
				res.viol("C01", "create-identity", "create-identity", fmt.Sprintf("%s created a record naming %q", m.By, nid), m.Seq)
			}
		case "Update":
			if !prevLive {
				res.Obs["c01.update_on_vacant"]++
				if nid != m.By {
					res.viol("C01", "create-identity", "create-identity:update", fmt.Sprintf("%s wrote a record naming %q", m.By, nid), m.Seq)
				}
				continue
			}
			if m.PrevBy == "outside" {
				res.Obs["c01.update_over_outside"]++
				continue
			}
			if pid == m.By && m.PrevBy == m.By {
				res.Obs["c01.refreshes"]++
				if nid != pid || ntok != ptok {
					res.viol("C01", "refresh-identity", "refresh-identity:"+cause,
						fmt.Sprintf("%s refreshed rev %d republishing (%s,%s) over (%s,%s)", m.By, m.PrevRev, nid, ntok, pid, ptok), m.Seq)
				}
				if m.Exp != m.PrevRev {
					res.viol("C01", "refresh-revision", "refresh-revision", fmt.Sprintf("refresh expected %d over %d", m.Exp, m.PrevRev), m.Seq)
				}
				continue
			}
			// replacement of another owner's live record
			res.Obs["c01.takeovers"]++
			if !is.Takeover || !(is.Priority > pprio) {
				res.viol("C01", "illegitimate-takeover", "illegitimate-takeover:"+cause,
					fmt.Sprintf("%s (takeover=%v prio=%d) replaced live record of %s (prio %d) rev %d", m.By, is.Takeover, is.Priority, pid, pprio, m.PrevRev), m.Seq)
			}
			if nid != m.By {
				res.viol("C01", "create-identity", "takeover-identity", fmt.Sprintf("%s wrote a record naming %q", m.By, nid), m.Seq)
			}
		case "Delete":
			if !prevLive {
				res.Obs["c01.delete_on_vacant"]++
				continue
			}
			// the Delete belongs to the shutdown in which it was ISSUED (it may be applied
			// after a StopWithContext that ran into its time-out has already returned) - or, if
			// the releasing goroutine first read the record (the store call immediately before
			// this Delete on the same goroutine), in which that read was issued: a stop call that
			// gives up while the read is still out returns before the Delete is issued
			inStop := false
			issue := m.Seq
			if c := v.Calls[m.Call]; c != nil {
				issue = c.Issue
			}
			var prevCall *StoreCall
			for _, c := range v.CallsL {
				if c.Inst == m.By && c.G == m.G && c.Issue < issue && c.Call != m.Call {
					prevCall = c
				}
			}
			began := issue
			if prevCall != nil && prevCall.Op == "Get" {
				began = prevCall.Issue
			}
			for _, a := range v.APIs {
				if a.Inst == m.By && a.API == "StopWithContext" && a.DelKey && a.Call < began && (a.Ret < 0 || a.Ret > began) {
					inStop = true
				}
			}
			if pid != m.By || m.PrevBy != m.By {
				// did the deleter read the record as its own just before (on the same goroutine)?
				// (the store call IMMEDIATELY before this Delete on the same goroutine: a
				// second Delete after a failed one has no read of its own)
				how := "blind"
				if prevCall != nil && prevCall.Op == "Get" && prevCall.Apply >= 0 && prevCall.OK {
					if id, _, _ := DecodeIDToken([]byte(prevCall.Val)); id == m.By {
						how = "after-own-read"
					}
				}
				res.viol("C01", "delete-foreign", "delete-foreign:"+how+":in-shutdown="+fmt.Sprint(inStop),
					fmt.Sprintf("%s deleted live record owned by %s (written by %s, token %s)", m.By, pid, m.PrevBy, ptok), m.Seq)
				continue
			}
			if !inStop {
				res.viol("C01", "delete-outside-shutdown", "delete-outside-shutdown:"+cause, fmt.Sprintf("%s deleted its record outside StopWithContext{DeleteKey}", m.By), m.Seq)
				continue
			}
			// owner(p)=c with c's term token: the token must be one of c's term tokens that ended at this stop
			res.Obs["c01.shutdown_deletes"]++
			ok := false
			for _, t := range v.Terms[m.By] {
				if t.Token == ptok {
					ok = true
				}
			}
			if !ok && ptok != "" {
				res.Obs["c01.delete_own_unclaimed_term"]++
			}
		}
	}
}

// causeBefore: closest cause-bearing log on goroutine g before idx.
func (v *View) causeBefore(idx int, g uint64, inst string) string {
	for j := idx - 1; j >= 0 && j > idx-300; j-- {
		p := v.Ev[j]
		if p.G != g || p.Kind != "log" {
			continue
		}
		switch p.Msg {
		case "attempting_acquire_with_retry", "priority_takeover_opportunity", "election_started", "acquire_retry":
			return p.Msg
		}
	}
	return "-"
}

// ---------------------------------------------------------------------------
// C02 — at most one leader; every claim backed by the record (benign specs)
// ---------------------------------------------------------------------------

func (v *View) checkC02(res *Result) {
	if !v.Spec.Benign || !v.Spec.NoPreempt {
		return
	}
	for idx, e := range v.Ev {
		switch e.Kind {
		case "flag":
			if !e.Flag {
				continue
			}
			res.Obs["c02.flag_up"]++
			cause := v.causeBefore(idx, e.G, e.Inst)
			if st := v.stoppedAt(e.Inst, idx); st != nil {
				cause = "after-stop"
			}
			if len(e.Others) > 0 {
				res.viol("C02", "two-leaders", "two-leaders:"+cause, fmt.Sprintf("%s became leader while %v claim leadership", e.Inst, e.Others), idx)
			}
			if !e.RecOK || e.RecID != e.Inst || e.RecTok != e.Token {
				res.viol("C02", "claim-unbacked", "claim-unbacked-at-promotion:"+cause,
					fmt.Sprintf("%s claims with token %s; live record ok=%v id=%s token=%s", e.Inst, e.Token, e.RecOK, e.RecID, e.RecTok), idx)
			}
		case "claim.ok":
			res.Obs["c02.claim_checks"]++
		case "claim.mismatch":
			res.Obs["c02.claim_checks"]++
			res.viol("C02", "claim-unbacked", "claim-unbacked-at-"+e.S, fmt.Sprintf("%s claims token %s at %s; record ok=%v id=%s tok=%s", e.Inst, e.Token, e.S, e.RecOK, e.RecID, e.RecTok), idx)
		case "api.return":
			if (e.API == "Stop" || e.API == "StopWithContext") && e.Flag {
				racing := false
				for _, a := range v.APIs {
					if a.Ret == idx && v.startDuring(a) {
						racing = true // a Start issued during the stop call restarted the election
					}
				}
				if !racing {
					res.viol("C02", "claim-after-stop", "claim-at-stop-return", e.Inst+" reports leadership when its stop call returns", idx)
				}
			}
		}
	}
	res.Obs["c02.terms"] += len(v.All)
	// stops landing inside an in-flight store call of the same instance
	for _, a := range v.APIs {
		if !a.IsStop() || a.Teardown {
			continue
		}
		res.Obs["c02.stops"]++
		for _, c := range v.CallsL {
			if c.Inst == a.Inst && c.Issue < a.Call && (c.Return < 0 || c.Return > a.Call) && c.Op != "Watch" {
				res.Obs["c02.stops_inflight"]++
				break
			}
		}
	}
}

// ---------------------------------------------------------------------------
// C05 — tokens unique per term, constant within it
// ---------------------------------------------------------------------------

var (
	tokMu      sync.Mutex
	seenTokens = map[string]string{} // token -> first writer (process-wide: across scenarios)
	tokScen    = map[string]string{}
)

func (v *View) checkC05(res *Result) {
	acqTok := map[string]map[string]bool{} // inst -> tokens acquired
	lastOwn := map[string]Mut{}
	for _, m := range v.Muts {
		if m.Op == "Expired" || m.Op == "Delete" || m.Op == "Expire" {
			continue
		}
		nid, ntok, _ := DecodeIDToken([]byte(m.Val))
		if m.By == "outside" {
			if ntok != "" {
				tokMu.Lock()
				if _, ok := seenTokens[ntok]; !ok {
					seenTokens[ntok] = "outside"
					tokScen[ntok] = v.Spec.Name
				}
				tokMu.Unlock()
			}
			continue
		}
		pid, ptok, _ := DecodeIDToken([]byte(m.PrevVal))
		prevLive := m.PrevOp == "PUT"
		isRefresh := m.Op == "Update" && prevLive && pid == m.By && m.PrevBy == m.By
		if isRefresh {
			res.Obs["c05.refreshes"]++
			if nid != pid || ntok != ptok {
				res.viol("C05", "refresh-token", "refresh-token-changed", fmt.Sprintf("%s refresh republished (%s,%s) over (%s,%s)", m.By, nid, ntok, pid, ptok), m.Seq)
			}
		} else {
			// acquisition: creation or preemption (or re-creation over a vacant key)
			vacantUpdate := m.Op == "Update" && !prevLive
			if vacantUpdate {
				// an Update that lands on a tombstone: only an acquisition if it does not
				// republish the writer's own previous token (else it is a stale refresh)
				res.Obs["c05.update_on_vacant"]++
			}
			res.Obs["c05.acquisitions"]++
			tokMu.Lock()
			first, dup := seenTokens[ntok]
			if !dup {
				seenTokens[ntok] = m.By
				tokScen[ntok] = v.Spec.Name
			}
			sc := tokScen[ntok]
			tokMu.Unlock()
			if dup && !(vacantUpdate && first == m.By) {
				res.viol("C05", "token-reused", "token-reused:"+m.Op, fmt.Sprintf("%s acquired with token %s first seen from %s in %s", m.By, ntok, first, sc), m.Seq)
			}
			if ntok == "" {
				res.viol("C05", "token-empty", "token-empty", m.By+" acquired with an empty token", m.Seq)
			}
			if acqTok[m.By] == nil {
				acqTok[m.By] = map[string]bool{}
			}
			acqTok[m.By][ntok] = true
		}
		lastOwn[m.By] = m
		_ = lastOwn
	}
	// (iii) promotion callback token equals the token of an acquisition write by that instance
	handed := map[string]map[string]bool{}
	for idx, e := range v.Ev {
		if e.Kind != "cb.promote" {
			continue
		}
		res.Obs["c05.promotions"]++
		if !acqTok[e.Inst][e.Token] {
			res.viol("C05", "promote-token", "promote-token-not-in-record", fmt.Sprintf("%s promoted with token %s that it never published", e.Inst, e.Token), idx)
		}
		// every term has a token of its own: the same token is never handed to two promotions
		if handed[e.Inst] == nil {
			handed[e.Inst] = map[string]bool{}
		}
		if handed[e.Inst][e.Token] {
			res.viol("C05", "promote-token", "promote-token-handed-twice", fmt.Sprintf("%s: token %s handed to a second promotion callback (a term's promotion received another term's token)", e.Inst, e.Token), idx)
		}
		handed[e.Inst][e.Token] = true
	}
	// (iv) at quiescent points while leader: Token()/Status().Token equal the token of its latest own record version
	own := map[string]string{}
	mi := 0
	for idx, e := range v.Ev {
		for mi < len(v.Muts) && v.Muts[mi].Seq <= idx {
			m := v.Muts[mi]
			mi++
			if m.By != "outside" && m.By != "" && (m.Op == "Create" || m.Op == "Update") {
				_, t, _ := DecodeIDToken([]byte(m.Val))
				own[m.By] = t
			}
		}
		if e.Kind != "quiescent" || e.Snap == nil || !e.Snap.APILeader || !e.Snap.IsLeader {
			continue
		}
		// (an outside party that deleted / expired / rewrote the record during the last TTL may have
		// let a leftover acquisition round of the same instance re-create it under that round's
		// token: tampering, judged by C13/C04, not part of this property's premise)
		tampered := false
		if is := v.instSpec(e.Inst); is != nil {
			for k := len(v.Muts) - 1; k >= 0; k-- {
				m := v.Muts[k]
				if m.Seq > idx {
					continue
				}
				if m.VT < e.VT-v.Spec.TTL {
					break
				}
				if m.Key == is.Group && m.By == "outside" {
					tampered = true
					break
				}
			}
		}
		if tampered {
			res.Obs["c05.leader_snapshots_after_tampering"]++
			continue
		}
		res.Obs["c05.leader_snapshots"]++
		if e.Snap.APIToken != own[e.Inst] || e.Snap.Token != own[e.Inst] {
			// discriminator: did a PEER election delete a live record of this instance during the
			// last TTL (the open C01 defect: read-then-delete on shutdown is not atomic)? Then a
			// leftover acquisition round of this instance may have re-created the key under that
			// round's token while the answer to the winning write was still on its way.
			sig := "token-api-mismatch"
			for k := len(v.Muts) - 1; k >= 0; k-- {
				m := v.Muts[k]
				if m.Seq > idx {
					continue
				}
				if m.VT < e.VT-v.Spec.TTL {
					break
				}
				if m.Op == "Delete" && m.By != e.Inst && m.By != "outside" && m.By != "" && m.PrevVal != "" {
					if id, _, _ := DecodeIDToken([]byte(m.PrevVal)); id == e.Inst {
						sig = "token-api-mismatch:after-peer-deleted-own-record"
						break
					}
				}
			}
			res.viol("C05", "token-api", sig, fmt.Sprintf("%s Token()=%s Status().Token=%s latest own record token=%s", e.Inst, e.Snap.APIToken, e.Snap.Token, own[e.Inst]), idx)
		}
	}
	multi := 0
	for _, ts := range v.Terms {
		if len(ts) >= 3 {
			multi++
		}
	}
	res.Obs["c05.insts_3terms"] += multi
}

// ---------------------------------------------------------------------------
// C07 — leadership stable in fault-free operation (benign specs)
// ---------------------------------------------------------------------------

func (v *View) checkC07(res *Result) {
	if !v.Spec.Benign || !v.Spec.NoPreempt {
		return
	}
	for _, t := range v.All {
		res.Obs["c07.terms"]++
		is := v.instSpec(t.Inst)
		end := t.DownVT
		if t.Down < 0 {
			end = v.End
			if end < 0 && len(v.Ev) > 0 {
				end = v.Ev[len(v.Ev)-1].VT
			}
		}
		if is != nil && end-t.UpVT >= 20*is.H {
			res.Obs["c07.terms_20h"]++
		}
		if t.Down >= 0 && t.Cause != "stop" && t.Cause != "teardown" {
			res.viol("C07", "demoted", "demoted:"+t.Cause, fmt.Sprintf("%s (term %s) lost leadership at %v without being stopped: %s", t.Inst, t.Token, t.DownVT, t.Cause), t.Down)
		}
	}
	// the record of a claiming leader never lapses or changes owner
	for _, m := range v.Muts {
		owner, otok, _ := DecodeIDToken([]byte(m.PrevVal))
		if m.PrevOp != "PUT" || owner == "" {
			continue
		}
		t := v.termAt(owner, m.Seq)
		if t == nil || t.Token != otok {
			continue
		}
		if m.Op == "Expired" {
			res.viol("C07", "lapse", "record-lapsed", fmt.Sprintf("record of claiming leader %s expired at %v", owner, m.VT), m.Seq)
		} else if m.By != owner {
			res.viol("C07", "owner-change", "owner-changed:"+m.Op, fmt.Sprintf("record of claiming leader %s changed by %s (%s)", owner, m.By, m.Op), m.Seq)
		}
	}
	// token constant within the term
	for idx, e := range v.Ev {
		if e.Kind == "quiescent" && e.Snap != nil && e.Snap.APILeader {
			if t := v.termAt(e.Inst, idx); t != nil && t.Token != e.Snap.APIToken {
				res.viol("C07", "token-changed", "token-changed", fmt.Sprintf("%s term token %s but Token()=%s", e.Inst, t.Token, e.Snap.APIToken), idx)
			}
		}
		if e.Kind == "cb.demote" {
			// a demotion callback outside any stop call
			st := false
			for _, a := range v.APIs {
				if a.Inst == e.Inst && a.IsStop() && a.Call < idx {
					st = true
				}
			}
			if !st {
				res.viol("C07", "demote-callback", "demote-callback-without-stop", e.Inst+" ran its demotion callback without having been stopped", idx)
			}
		}
	}
	succ := 0
	for _, a := range v.APIs {
		if a.IsStop() && !a.Teardown && a.PreFlagAtCall(v) {
			succ++
		}
	}
	res.Obs["c07.leader_stops"] += succ
	for _, e := range v.Ev {
		if e.Kind == "watch.deliver" {
			res.Obs["c07.watch_deliveries"]++
		}
	}
}

// PreFlagAtCall: was the instance leader when the call was issued?
func (a *APICall) PreFlagAtCall(v *View) bool { return v.termAt(a.Inst, a.Call) != nil }

// ---------------------------------------------------------------------------
// C08 — callbacks mirror leadership exactly
// ---------------------------------------------------------------------------

func (v *View) checkC08(res *Result) {
	P := map[string]int{}
	D := map[string]int{}
	lastKind := map[string]string{}
	// a promotion goroutine held by the harness at its entry site has, by construction, not
	// called the callback yet: samples taken meanwhile are not judged
	parked := make([]bool, len(v.Ev))
	np := 0
	// likewise a call into user code (logger, metrics, health) of an instance held by the
	// harness for a stretch of virtual time: the library is stopped between two steps of a
	// sequence (flag down ... callback), samples of that instance taken meanwhile are not judged
	held := map[string]int{}
	heldAt := make([]map[string]bool, len(v.Ev))
	for idx, e := range v.Ev {
		if e.Op == "yield:promoteGoroutineEntry" || e.Op == "yield:demoteGoroutineEntry" {
			switch e.Kind {
			case "break.hit":
				np++
			case "break.release":
				np--
			}
		}
		if isUserCodeOp(e.Op) {
			switch e.Kind {
			case "break.hit":
				held[e.Inst]++
			case "break.release":
				held[e.Inst]--
			}
		}
		parked[idx] = np > 0
		if e.Kind == "quiescent" && held[e.Inst] > 0 {
			heldAt[idx] = map[string]bool{e.Inst: true}
		}
	}
	for idx, e := range v.Ev {
		switch e.Kind {
		case "break.reached":
			res.Obs["c08.holds_reached"]++ // a goroutine was held at a hold point and a racing event fired
		case "cb.promote":
			res.Obs["c08.promotes"]++
			if P[e.Inst] > D[e.Inst] && !v.inStopAt(e.Inst, idx) {
				// (a Start issued while a stop call of the same instance is still running races
				// with that call's demotion callback: not sequential use of the API)
				why := v.lastTermCause(e.Inst, idx)
				if why == "stop" {
					// was the previous term ended by a StopWithContext that does not wait for the callback?
					var lt *Term
					for _, t := range v.Terms[e.Inst] {
						if t.Down >= 0 && t.Down <= idx {
							lt = t
						}
					}
					for _, a := range v.APIs {
						if lt != nil && a.Inst == e.Inst && a.API == "StopWithContext" && a.Call < lt.Down && (a.Ret < 0 || a.Ret > lt.Down) && strings.Contains(a.Desc, "wait=false") {
							why = "stop-nowait"
						}
					}
				}
				if why == "stop-nowait" {
					// was the detached demotion goroutine held by the harness BEFORE it signalled its
					// start? Then the recorded residual window (between that signal and the call
					// into the callback) has nothing to do with it.
					for j := idx - 1; j >= 0 && j > idx-2000; j-- {
						if v.Ev[j].Kind == "break.hit" && v.Ev[j].Op == "yield:demoteGoroutineEntry" {
							why += ":demote-goroutine-held-before-its-start-signal"
							break
						}
						if v.Ev[j].Kind == "cb.demote" && v.Ev[j].Inst == e.Inst {
							break
						}
					}
				}
				// Is the previous term's demotion, at this very moment, held at the log line
				// that sits between taking the flag down and calling OnDemote (a slow Logger)?
				// That is the recorded finding "no ordering between a synchronous demotion's
				// OnDemote and the next term's OnPromote"; anything else is not.
				ii := v.instIndex(e.Inst)
				for _, hs := range v.holdSeqs {
					if hs[0] == ii && idx >= hs[1] && idx <= hs[2] && v.Ev[hs[1]].Op == "log:leader_demoted" {
						why = "previous-demotion-held-at-its-log-line"
						break
					}
				}
				res.viol("C08", "alternation", "two-promotions:prev-term-end="+why, fmt.Sprintf("%s: promotion callback invoked twice in a row (P=%d D=%d; previous term ended by %s)", e.Inst, P[e.Inst]+1, D[e.Inst], why), idx)
			}
			P[e.Inst]++
			lastKind[e.Inst] = e.Kind
			// token must be a term token of this instance
			found := false
			for _, t := range v.Terms[e.Inst] {
				if t.Token == e.Token && t.Up < idx {
					found = true
				}
			}
			if !found {
				res.viol("C08", "promote-token", "promote-without-term", fmt.Sprintf("%s promotion callback with token %s that is no term of it", e.Inst, e.Token), idx)
			}
		case "cb.demote":
			res.Obs["c08.demotes"]++
			if D[e.Inst] >= P[e.Inst] {
				cause := v.demoteCause(idx)
				// Which side of the term's "OnPromote is being delivered" signal was this? The
				// library signals, then calls into the user's OnPromote; a demotion that waited
				// for the signal can enter the user's OnDemote within that handful of
				// instructions (the library cannot observe the entry into a user callback: the
				// recorded residual window). If the goroutine that delivers this term's
				// OnPromote was already past its entry when OnDemote was entered, and its
				// OnPromote is entered at the same virtual instant, it is that window; if the
				// goroutine had not even started, the demotion did not wait at all.
				for j := idx + 1; j < len(v.Ev) && j < idx+400 && v.Ev[j].VT == e.VT; j++ {
					if v.Ev[j].Kind == "cb.promote" && v.Ev[j].Inst == e.Inst {
						for i := idx - 1; i >= 0 && i > idx-4000; i-- {
							if v.Ev[i].Kind == "site" && v.Ev[i].S == "promoteGoroutineEntry" && v.Ev[i].G == v.Ev[j].G {
								cause = "promote-goroutine-past-its-start"
								break
							}
							if v.Ev[i].Kind == "flag" && v.Ev[i].Inst == e.Inst && v.Ev[i].Flag {
								break // the term began here (goroutine ids are reused: look no further back)
							}
						}
						break
					}
				}
				res.viol("C08", "alternation", "demote-without-promote:"+cause, fmt.Sprintf("%s: demotion callback with P=%d D=%d (%s)", e.Inst, P[e.Inst], D[e.Inst]+1, cause), idx)
			}
			D[e.Inst]++
			res.Obs["c08.demote_cause."+v.demoteCause(idx)]++
		case "quiescent":
			if e.Snap == nil || e.S == "final" {
				continue
			}
			if v.inStopAt(e.Inst, idx) || parked[idx] || heldAt[idx] != nil {
				continue
			}
			res.Obs["c08.quiescent_checks"]++
			diff := P[e.Inst] - D[e.Inst]
			if e.Snap.APILeader != (diff == 1) {
				why := v.lastTermCause(e.Inst, idx)
				res.viol("C08", "mirror", fmt.Sprintf("mirror:leader=%v:diff=%d:%s", e.Snap.APILeader, diff, why),
					fmt.Sprintf("%s IsLeader=%v but promotions-demotions=%d at quiescent point %v (last term end: %s)", e.Inst, e.Snap.APILeader, diff, e.VT, why), idx)
			}
		}
	}
	// (a) exactly one promotion per term (judged at the first quiescent point after the term start)
	for _, t := range v.All {
		q := v.nextQuiescent(t.Inst, t.Up)
		for q >= 0 && (parked[q] || heldAt[q] != nil) {
			q = v.nextQuiescent(t.Inst, q)
		}
		if q < 0 {
			continue
		}
		n := 0
		for _, p := range t.Promote {
			if p < q {
				n++
			}
		}
		if n != 1 && !v.inStopAt(t.Inst, t.Up) && !v.inStopAt(t.Inst, q) {
			res.viol("C08", "promote-count", fmt.Sprintf("promote-count=%d", n), fmt.Sprintf("%s term %s had %d promotion callbacks by the next quiescent point", t.Inst, t.Token, n), t.Up)
		}
		if len(t.Promote) > 1 {
			res.viol("C08", "promote-count", "promote-twice", fmt.Sprintf("%s term %s promoted %d times", t.Inst, t.Token, len(t.Promote)), t.Promote[1])
		}
	}
}

func (v *View) nextQuiescent(inst string, idx int) int {
	for j := idx + 1; j < len(v.Ev) && j < v.EndSeq; j++ {
		if v.Ev[j].Kind == "quiescent" && v.Ev[j].Inst == inst {
			return j
		}
	}
	return -1
}

func (v *View) demoteCause(idx int) string {
	e := v.Ev[idx]
	for j := idx - 1; j >= 0 && j > idx-200; j-- {
		p := v.Ev[j]
		if p.G != e.G {
			continue
		}
		if p.Kind == "log" && p.Msg == "leader_demoted" {
			return p.Fields["reason"]
		}
		if p.Kind == "cb.demote.return" || p.Kind == "cb.demote" {
			break
		}
	}
	return "unknown"
}

func (v *View) lastTermCause(inst string, idx int) string {
	c := "none"
	for _, t := range v.Terms[inst] {
		if t.Down >= 0 && t.Down <= idx {
			c = t.Cause
		}
	}
	return c
}

// ---------------------------------------------------------------------------
// C18 — Status and metrics tell the truth
// ---------------------------------------------------------------------------

var docStates = map[string]bool{"INIT": true, "CANDIDATE": true, "LEADER": true, "FOLLOWER": true, "DEMOTED": true, "STOPPED": true}

func (v *View) checkC18(res *Result) {
	lastTo := map[string]string{}
	lastOwnRev := map[string]uint64{}
	inflightWrite := func(inst string, idx int) bool {
		for _, c := range v.CallsL {
			if c.Inst == inst && (c.Op == "Update" || c.Op == "Create") && c.Issue < idx && (c.Return < 0 || c.Return > idx) {
				return true
			}
		}
		return false
	}
	mi := 0
	lastOwnerChange := map[string]time.Duration{}
	for idx, e := range v.Ev {
		for mi < len(v.Muts) && v.Muts[mi].Seq <= idx {
			m := v.Muts[mi]
			mi++
			pid, _, _ := DecodeIDToken([]byte(m.PrevVal))
			nid, _, _ := DecodeIDToken([]byte(m.Val))
			if m.Op != "Update" || pid != nid || m.PrevOp != "PUT" {
				lastOwnerChange[m.Key] = m.VT
			}
		}
		switch e.Kind {
		case "store.return":
			// the revision of the latest write the instance knows to have succeeded: the
			// acknowledgement must have arrived, and for a refresh within the library's own
			// time-out (a late ack is a failed heartbeat from the instance's point of view)
			if c := v.Calls[e.Call]; c != nil && e.OK && (e.Op == "Create" || e.Op == "Update") && c.Apply >= 0 && c.OK {
				is := v.instSpec(e.Inst)
				// ("its latest successful write" is the leader's, i.e. the running term's: the
				// writes are kept per token. A term that begins late - its acquisition finished
				// long ago, another term of the same instance came and went in between - shows the
				// revision of ITS record, not of the other term's.)
				_, wtok, _ := DecodeIDToken([]byte(c.ReqVal))
				key := e.Inst + "|" + wtok
				if (e.Op == "Create" || is == nil || c.ReturnVT-c.IssueVT <= opTimeout(is.H)) && c.Rev > lastOwnRev[key] {
					lastOwnRev[key] = c.Rev // revisions are monotonic: a late ack of an older write does not count
				}
			}
		case "transition":
			res.Obs["c18.transitions"]++
			prev, ok := lastTo[e.Inst]
			if ok && prev != e.From {
				cause := v.causeOf(idx)
				res.viol("C18", "transition-chain", fmt.Sprintf("chain:%s->%s after to=%s:%s", e.From, e.To, prev, cause), fmt.Sprintf("%s transition %s->%s but previous to-state was %s", e.Inst, e.From, e.To, prev), idx)
			}
			if !docStates[e.From] || !docStates[e.To] {
				res.viol("C18", "state-doc", "undocumented-state", fmt.Sprintf("%s transition %s->%s", e.Inst, e.From, e.To), idx)
			}
			lastTo[e.Inst] = e.To
			res.Obs["c18.state."+e.To]++
		case "log":
			if e.Msg == "election_started" {
				// a successful Start sets CANDIDATE without recording a transition; it logs this
				// line while holding the election mutex, so no transition interleaves (the
				// api.call event itself may precede another call's critical section)
				lastTo[e.Inst] = "CANDIDATE"
			}
		case "quiescent":
			sn := e.Snap
			if sn == nil {
				continue
			}
			res.Obs["c18.snapshots"]++
			if sn.IsLeader != (sn.State == "LEADER") {
				sig := fmt.Sprintf("isleader=%v:state=%s:%s", sn.IsLeader, sn.State, v.lastTermCause(e.Inst, idx))
				if v.startCtxEnded(e.Inst, idx) {
					sig += ":start-context-ended"
				}
				res.viol("C18", "snapshot", sig, fmt.Sprintf("%s Status(): IsLeader=%v State=%s", e.Inst, sn.IsLeader, sn.State), idx)
			}
			if !docStates[sn.State] {
				res.viol("C18", "state-doc", "undocumented-state", e.Inst+" state "+sn.State, idx)
			}
			if sn.Gauge >= 0 && (sn.Gauge == 1) != sn.APILeader {
				res.viol("C18", "gauge", "gauge-differs", fmt.Sprintf("%s gauge=%d IsLeader()=%v", e.Inst, sn.Gauge, sn.APILeader), idx)
			}
			if st := v.stoppedAt(e.Inst, idx); st != nil && !v.inStopAt(e.Inst, idx) {
				res.Obs["c18.stopped_snapshots"]++
				if sn.State != "STOPPED" || sn.IsLeader {
					res.viol("C18", "stopped", fmt.Sprintf("after-stop:state=%s:leader=%v", sn.State, sn.IsLeader), fmt.Sprintf("%s after %s returned: State=%s IsLeader=%v", e.Inst, st.API, sn.State, sn.IsLeader), idx)
				}
			}
			if sn.IsLeader && sn.APILeader {
				t := v.termAt(e.Inst, idx)
				if sn.LeaderID != e.Inst {
					res.viol("C18", "leader-id", "leader-snapshot-leaderid", fmt.Sprintf("leader %s reports LeaderID=%q", e.Inst, sn.LeaderID), idx)
				}
				if t != nil && sn.Token != t.Token {
					res.viol("C18", "leader-token", "leader-snapshot-token", fmt.Sprintf("leader %s Status().Token=%s term=%s", e.Inst, sn.Token, t.Token), idx)
				}
				if lr := lastOwnRev[e.Inst+"|"+sn.Token]; !inflightWrite(e.Inst, idx) && lr != 0 && sn.Revision != lr {
					res.viol("C18", "leader-revision", "leader-snapshot-revision", fmt.Sprintf("leader %s Status().Revision=%d latest successful write of the term=%d", e.Inst, sn.Revision, lr), idx)
				}
				res.Obs["c18.leader_snapshots"]++
			}
		}
	}
	// follower LeaderID convergence: at a quiescent point >= P + 4l + watch delay after the last
	// ownership change and after the follower's own last transition, with the follower running.
	v.checkC18Convergence(res)
}

func (v *View) maxLeg() time.Duration {
	l := v.Spec.Lat.Max
	if v.Spec.Lat.SpikeMax > l {
		l = v.Spec.Lat.SpikeMax
	}
	if v.Spec.Lat.Min > l {
		l = v.Spec.Lat.Min
	}
	return l
}

func (v *View) checkC18Convergence(res *Result) {
	if len(v.Spec.Rules) > 0 {
		return
	}
	for _, a := range v.Spec.Actions {
		switch a.Kind {
		case "partition", "crash", "rule", "closewatch":
			return
		}
	}
	// a follower learns the owner from its watch (initial value or change event, each
	// possibly delayed by the watch policy) or from a periodic check: set-up (failed
	// Create + Watch = 4 legs) + P + one Get (2 legs) + the watch delay, plus slack legs.
	bound := 500*time.Millisecond + v.Spec.Watch.DelayMax + 8*v.maxLeg() + time.Millisecond
	type st struct {
		lastChange time.Duration
		changeRev  uint64 // revision of the write that gave the record its present owner
		owner      string
		live       bool
	}
	rec := map[string]*st{}
	lastTrans := map[string]time.Duration{}
	mi := 0
	for idx, e := range v.Ev {
		if idx >= v.EndSeq {
			break
		}
		for mi < len(v.Muts) && v.Muts[mi].Seq <= idx {
			m := v.Muts[mi]
			mi++
			s := rec[m.Key]
			if s == nil {
				s = &st{}
				rec[m.Key] = s
			}
			nid, _, _ := DecodeIDToken([]byte(m.Val))
			switch m.Op {
			case "Create", "Update", "Put":
				if !s.live || s.owner != nid {
					s.lastChange = m.VT
					s.changeRev = m.Rev
				}
				s.owner, s.live = nid, true
				if m.By == "outside" {
					// a record forged by the outside party has no well-defined owner id
					s.owner = ""
				}
			default:
				s.lastChange = m.VT
				s.live = false
			}
		}
		switch e.Kind {
		case "transition", "api.return":
			lastTrans[e.Inst] = e.VT
		case "quiescent":
			sn := e.Snap
			is := v.instSpec(e.Inst)
			if sn == nil || is == nil || sn.State != "FOLLOWER" {
				continue
			}
			s := rec[is.Group]
			if s == nil || !s.live || s.owner == "" {
				continue
			}
			from := s.lastChange
			if lastTrans[e.Inst] > from {
				from = lastTrans[e.Inst]
			}
			if e.VT-from < bound+v.slack(from, e.VT) {
				continue
			}
			// a call of this follower held by the harness (breakpoint) or hanging keeps its
			// loop from reading anything: only judge followers whose calls in the window
			// took no longer than two legs
			held := false
			lim := 2*v.maxLeg() + time.Millisecond
			for _, c := range v.CallsL {
				if c.Inst != e.Inst || c.IssueVT > e.VT {
					continue
				}
				end := c.ReturnVT
				if c.Return < 0 || c.Return > idx {
					end = e.VT
				}
				if end >= e.VT-bound && end-c.IssueVT > lim {
					held = true
					break
				}
			}
			if held {
				continue
			}
			res.Obs["c18.follower_convergence_checks"]++
			if sn.LeaderID != s.owner {
				// discriminator: what the follower was told LAST was a watch notification OLDER than
				// the write that gave the record its present owner ("leader_changed" with a lower
				// revision) - its watch handling lags behind and has put an old owner back over what
				// a later read had shown
				sig := "follower-leaderid-stale"
				for j := idx - 1; j >= 0; j-- {
					p := v.Ev[j]
					if p.Kind != "log" || p.Inst != e.Inst || (p.Msg != "leader_changed" && p.Msg != "leader_changed_periodic_check") {
						continue
					}
					if p.Msg == "leader_changed" {
						if r, err := strconv.ParseUint(p.Fields["revision"], 10, 64); err == nil && r < s.changeRev && p.Fields["new_leader_id"] == sn.LeaderID {
							sig = "follower-leaderid-stale:older-watch-event-applied-last"
						}
					}
					break
				}
				res.viol("C18", "follower-leaderid", sig, fmt.Sprintf("follower %s LeaderID=%q but live record owner %q since %v (now %v)", e.Inst, sn.LeaderID, s.owner, s.lastChange, e.VT), idx)
			}
		}
	}
}

// ---------------------------------------------------------------------------
// C19 — the promotion context lives exactly as long as the term
// ---------------------------------------------------------------------------

func (v *View) checkC19(res *Result) {
	for idx, e := range v.Ev {
		if e.Kind != "ctx.state" || idx >= v.EndSeq {
			continue
		}
		if v.heldAt(e.Inst, e.VT) || v.heldAtSeq(e.Inst, idx) {
			// the library is stopped inside a call into user code of this instance (held by the
			// harness for a stretch of virtual time, or of real time only), possibly between cancelling the term context
			// and publishing the end of the term: not judged
			continue
		}
		var term *Term
		for _, t := range v.Terms[e.Inst] {
			if t.Token == e.Token {
				term = t
			}
		}
		if term == nil {
			continue
		}
		// only callbacks that block on their context are sampled: "done" means the
		// callback saw Done() (or the context is done while the callback still runs)
		done := e.Flag
		active := term.Down < 0 || term.Down > idx
		if active {
			res.Obs["c19.live_checks"]++
			if done {
				sig := "cancelled-while-leading"
				if v.startCtxEnded(e.Inst, idx) {
					sig += ":start-context-ended" // the application ended the Start context and made no stop call
				}
				res.viol("C19", "cancelled-early", sig, fmt.Sprintf("%s term %s: promotion context done while the instance still leads that term", e.Inst, e.Token), idx)
			}
		} else {
			res.Obs["c19.ended_checks"]++
			res.Obs["c19.ended_cause."+term.Cause]++
			if !done {
				res.viol("C19", "not-cancelled", "not-cancelled:"+term.Cause, fmt.Sprintf("%s term %s ended at %v (%s) but its promotion context is not cancelled at %v", e.Inst, e.Token, term.DownVT, term.Cause, e.VT), idx)
			}
		}
	}
}

func hasPrefixAny(s string, ps ...string) bool {
	for _, p := range ps {
		if strings.HasPrefix(s, p) {
			return true
		}
	}
	return false
}
