package h

import (
	leader "github.com/ali-assar/NATS-Leader-Election/leader"
	"github.com/nats-io/nats.go"
)

// RT exposes the runner's instances (recording logger/metrics/callbacks, the
// reference store with real sleeps) to the real-time engine, which drives them
// outside a synctest bubble under the race detector.
type RT struct{ r *Runner }

func NewRT(spec *Spec) (*RT, error) {
	r := newRunner(nil, spec)
	for _, i := range r.order {
		if err := r.build(i); err != nil {
			return nil, err
		}
	}
	return &RT{r: r}, nil
}

func (x *RT) Insts() []string {
	var o []string
	for _, i := range x.r.order {
		o = append(o, i.spec.Name)
	}
	return o
}

func (x *RT) Election(name string) leader.Election { return x.r.insts[name].el }
func (x *RT) Conn(name string) *nats.Conn          { return x.r.insts[name].conn }
func (x *RT) Store() *Store                        { return x.r.St }
func (x *RT) Add(e Event)                          { x.r.add(e) }
func (x *RT) Events() []Event                      { return x.r.Tr.Copy() }
func (x *RT) InstSpec(name string) *InstSpec       { return x.r.insts[name].spec }

// Close ends the harness goroutines (after every election was stopped).
func (x *RT) Close() {
	close(x.r.quit)
	x.r.St.ReleaseAll()
	x.r.St.Close()
	x.r.acts.Wait()
}
