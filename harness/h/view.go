package h

import (
	"crypto/sha1"
	"encoding/hex"
	"fmt"
	"sort"
	"strings"
	"time"
)

type Violation struct {
	Prop   string `json:"prop"`
	Clause string `json:"clause"`
	Sig    string `json:"sig"` // stable signature: clause + cause/site read from the trace
	Detail string `json:"detail"`
	Seq    int    `json:"seq"`
}

type Result struct {
	Name         string            `json:"name"`
	Class        string            `json:"class"`
	Seed         uint64            `json:"seed"`
	Events       int               `json:"events"`
	Viol         []Violation       `json:"viol,omitempty"`
	Obs          map[string]int    `json:"obs"`
	FP           map[string]string `json:"fp"` // per property fingerprint of the abstracted trace ("" = trigger absent)
	Inconclusive string            `json:"inconclusive,omitempty"`
	Abandoned    string            `json:"abandoned,omitempty"` // the scenario was cut short by the harness for a reason of its own; nothing concluded
	Sample       []string          `json:"sample,omitempty"`    // abstracted trace (short)
	Fatal        string            `json:"fatal,omitempty"`
	Evals        int               `json:"evals,omitempty"`    // batch results (PURE/NATS/RT engines)
	Distinct     int               `json:"distinct,omitempty"` // distinct non-trivial cases in a batch result
	Samples      []any             `json:"samples,omitempty"`
}

func (r *Result) viol(prop, clause, sig, detail string, seq int) {
	// one report per (prop, sig) per scenario
	for _, v := range r.Viol {
		if v.Prop == prop && v.Sig == sig {
			return
		}
	}
	r.Viol = append(r.Viol, Violation{Prop: prop, Clause: clause, Sig: sig, Detail: detail, Seq: seq})
}

type Term struct {
	Inst    string
	Token   string
	Up      int
	Down    int // -1 while open
	UpVT    time.Duration
	DownVT  time.Duration
	Cause   string
	AcqRev  uint64
	Promote []int // seqs of cb.promote with this token
}

type Mut struct {
	Seq     int
	VT      time.Duration
	By      string
	Op      string
	Key     string
	Exp     uint64
	Rev     uint64
	Val     string
	Call    int
	PrevRev uint64
	PrevVal string
	PrevBy  string
	PrevOp  string
	G       uint64
}

type APICall struct {
	Inst     string
	API      string
	Desc     string
	Call     int
	Ret      int // -1 if never returned
	CallVT   time.Duration
	RetVT    time.Duration
	Result   string
	Teardown bool
	G        uint64
	PreToken string
	PreFlag  bool
	PostFlag bool
	PostTok  string
	CtxKind  string
	CtxID    int64         // validate calls whose context the application ends mid-call
	CtxEndVT time.Duration // -1: not ended (yet)
	Err      string
	DelKey   bool
	RecOK    bool // live record at return (stop calls)
	RecID    string
	RecTok   string
}

func (a *APICall) IsStop() bool { return a.API == "Stop" || a.API == "StopWithContext" }
func (a *APICall) OKStop() bool {
	return a.IsStop() && a.Ret >= 0 && (a.Result == "ok" || strings.Contains(a.Result, "already stopped"))
}

type StoreCall struct {
	Inst                       string
	Op                         string
	Call                       int
	Issue                      int
	Apply                      int
	Return                     int
	IssueVT, ApplyVT, ReturnVT time.Duration
	OK                         bool
	Err                        string
	Fault                      string
	Ord                        int
	G                          uint64
	Val                        string // value returned (Get)
	Rev                        uint64
	Exp                        uint64
	ReqVal                     string // value sent (Create/Update)
}

type View struct {
	Spec     *Spec
	Ev       []Event
	Terms    map[string][]*Term
	All      []*Term
	Muts     []Mut // successful mutations + expiries, in order
	APIs     []*APICall
	Calls    map[int]*StoreCall
	CallsL   []*StoreCall
	yields   []Event
	holdSeqs [][3]int      // every user-code hold, also of zero virtual duration: {index into Insts, first seq, last seq}
	holds    []Event       // user-code calls held by the harness for a positive virtual duration (VT = begin, N = duration)
	End      time.Duration // VT of teardown
	EndSeq   int
	Insts    []string
}

var causeMsgs = map[string]string{
	"demoting_due_to_heartbeat_failure":              "heartbeat_failure",
	"demoting_due_to_health_check_failure":           "health_check_failure",
	"demoting_due_to_validation_failure":             "validation_failure",
	"demoting_due_to_connection_loss":                "connection_loss",
	"demoting_due_to_reconnect_verification_failure": "reconnect_verification",
	"leadership_lost_via_watcher":                    "watcher",
	"acquire_failed_max_retries":                     "acquire_failed_max_retries",
	"priority_takeover_failed":                       "priority_takeover_failed",
}

// causeOf attributes the flag-down (or any) event at index idx to the closest
// preceding log / api.call event on the same goroutine.
func (v *View) causeOf(idx int) string {
	e := v.Ev[idx]
	for j := idx - 1; j >= 0 && j > idx-400; j-- {
		p := v.Ev[j]
		if p.G != e.G {
			continue
		}
		switch p.Kind {
		case "log":
			if c, ok := causeMsgs[p.Msg]; ok && p.Inst == e.Inst {
				return c
			}
			if p.Msg == "acquire_failed" && p.Inst == e.Inst {
				return "start_acquire_failed"
			}
			if p.Msg == "state_transition" {
				// an earlier transition on this goroutine: stop scanning
				return "unknown_after_transition"
			}
		case "api.call":
			if p.Inst == e.Inst && (p.API == "Stop" || p.API == "StopWithContext") {
				if strings.Contains(p.S, "teardown") {
					return "teardown"
				}
				return "stop"
			}
			if p.Inst == e.Inst && p.API == "Start" {
				return "start"
			}
		case "flag":
			if p.Inst == e.Inst {
				return "unknown"
			}
		}
	}
	return "unknown"
}

func NewView(spec *Spec, ev []Event) *View {
	v := &View{Spec: spec, Ev: ev, Terms: map[string][]*Term{}, Calls: map[int]*StoreCall{}, End: -1, EndSeq: len(ev)}
	for _, is := range spec.Insts {
		v.Insts = append(v.Insts, is.Name)
	}
	flag := map[string]bool{}
	open := map[string]*Term{}
	openAPI := map[string][]*APICall{}
	holdOpen := map[string]time.Duration{}
	holdOpenSeq := map[string]int{}
	for idx, e := range ev {
		switch e.Kind {
		case "yield":
			v.yields = append(v.yields, e)
		case "break.hit":
			if isUserCodeOp(e.Op) {
				holdOpen[e.Inst+"|"+e.Op] = e.VT
				holdOpenSeq[e.Inst+"|"+e.Op] = idx
			}
		case "break.release":
			if i0, ok := holdOpenSeq[e.Inst+"|"+e.Op]; ok {
				v.holdSeqs = append(v.holdSeqs, [3]int{v.instIndex(e.Inst), i0, idx})
				delete(holdOpenSeq, e.Inst+"|"+e.Op)
			}
			if t0, ok := holdOpen[e.Inst+"|"+e.Op]; ok && e.VT > t0 {
				v.holds = append(v.holds, Event{VT: t0, N: int64(e.VT - t0), Inst: e.Inst, Op: e.Op})
				delete(holdOpen, e.Inst+"|"+e.Op)
			}
		case "teardown":
			if v.End < 0 {
				v.End = e.VT
				v.EndSeq = idx
			}
		case "flag":
			if e.Flag && !flag[e.Inst] {
				t := &Term{Inst: e.Inst, Token: e.Token, Up: idx, Down: -1, UpVT: e.VT}
				v.Terms[e.Inst] = append(v.Terms[e.Inst], t)
				v.All = append(v.All, t)
				open[e.Inst] = t
			} else if !e.Flag && flag[e.Inst] {
				if t := open[e.Inst]; t != nil {
					t.Down = idx
					t.DownVT = e.VT
					t.Cause = v.causeOf(idx)
					delete(open, e.Inst)
				}
			}
			flag[e.Inst] = e.Flag
		case "store.issue":
			c := &StoreCall{Inst: e.Inst, Op: e.Op, Call: e.Call, Issue: idx, Apply: -1, Return: -1, IssueVT: e.VT, Fault: e.Fault, Ord: int(e.N), G: e.G, Exp: e.Exp, ReqVal: e.Val}
			v.Calls[e.Call] = c
			v.CallsL = append(v.CallsL, c)
		case "store.apply":
			if c := v.Calls[e.Call]; c != nil && e.Inst != "outside" {
				c.Apply = idx
				c.ApplyVT = e.VT
				c.OK = e.OK
				c.Err = e.Err
				c.Rev = e.Rev
				c.Val = e.Val
			}
			if e.OK && e.Op != "Get" && e.Op != "Watch" {
				v.Muts = append(v.Muts, Mut{Seq: idx, VT: e.VT, By: e.Inst, Op: e.Op, Key: e.Key, Exp: e.Exp, Rev: e.Rev, Val: e.Val, Call: e.Call,
					PrevRev: e.PrevRev, PrevVal: e.PrevVal, PrevBy: e.PrevBy, PrevOp: e.PrevOp, G: e.G})
			}
		case "store.expire":
			v.Muts = append(v.Muts, Mut{Seq: idx, VT: e.VT, By: "", Op: "Expired", Key: e.Key, Rev: e.Rev, PrevRev: e.Rev, PrevVal: e.PrevVal, PrevBy: e.PrevBy, PrevOp: e.PrevOp})
		case "store.return":
			if c := v.Calls[e.Call]; c != nil {
				c.Return = idx
				c.ReturnVT = e.VT
				if c.Apply < 0 {
					c.Err = e.Err
				}
			}
		case "api.call":
			a := &APICall{Inst: e.Inst, API: e.API, Desc: e.S, Call: idx, Ret: -1, CallVT: e.VT, G: e.G, Teardown: strings.Contains(e.S, "teardown"),
				PreToken: e.Token, PreFlag: e.Flag, CtxKind: e.S, DelKey: e.Flag && (e.API == "StopWithContext"), CtxID: e.N, CtxEndVT: -1}
			v.APIs = append(v.APIs, a)
			k := e.Inst + "/" + e.API + "/" + fmt.Sprint(e.G)
			openAPI[k] = append(openAPI[k], a)
		case "validate.ctx.end":
			for _, a := range v.APIs {
				if a.Inst == e.Inst && a.CtxID == e.N && e.N > 0 && (a.API == "ValidateToken" || a.API == "ValidateTokenOrDemote") {
					a.CtxEndVT = e.VT
				}
			}
		case "api.return":
			k := e.Inst + "/" + e.API + "/" + fmt.Sprint(e.G)
			if l := openAPI[k]; len(l) > 0 {
				a := l[len(l)-1]
				openAPI[k] = l[:len(l)-1]
				a.Ret = idx
				a.RetVT = e.VT
				a.Result = e.Ret
				a.PostFlag = e.Flag
				a.PostTok = e.Token
				a.Err = e.Err
				a.RecOK, a.RecID, a.RecTok = e.RecOK, e.RecID, e.RecTok
			}
		}
	}
	// promotions per term
	for idx, e := range ev {
		if e.Kind == "cb.promote" {
			for _, t := range v.Terms[e.Inst] {
				if t.Token == e.Token {
					t.Promote = append(t.Promote, idx)
				}
			}
		}
	}
	return v
}

// flagAt returns the claim of inst just after event index idx.
func (v *View) termAt(inst string, idx int) *Term {
	for _, t := range v.Terms[inst] {
		if t.Up <= idx && (t.Down < 0 || t.Down > idx) {
			return t
		}
	}
	return nil
}

// stopWindows returns for inst the index intervals [call, ret] of stop calls,
// and, per the C08 reading, a failed StopWithContext keeps the instance "in the
// middle of a stop" until the next successful stop returns (or Start).
func (v *View) inStopAt(inst string, idx int) bool {
	pendingFail := false
	for _, a := range v.APIs {
		if a.Inst != inst {
			continue
		}
		if a.Call > idx {
			break
		}
		if a.API == "Start" && a.Ret >= 0 && a.Ret <= idx && a.Result == "ok" {
			pendingFail = false
		}
		if !a.IsStop() {
			continue
		}
		if a.Ret < 0 || a.Ret >= idx {
			return true
		}
		if a.Result == "ok" {
			pendingFail = false
		} else if !strings.Contains(a.Result, "already stopped") {
			pendingFail = true
		}
	}
	return pendingFail
}

// lastStopBefore returns the latest stop call that returned OK at or before idx
// with no later successful Start before idx.
func (v *View) stoppedAt(inst string, idx int) *APICall {
	var last *APICall
	for _, a := range v.APIs {
		if a.Inst != inst || a.Ret < 0 || a.Ret > idx {
			continue
		}
		if a.IsStop() && a.Result == "ok" && !v.startDuring(a) {
			last = a
		}
		if a.API == "Start" && a.Result == "ok" {
			last = nil
		}
	}
	// a Start that has been called but not returned also ends the stopped period
	if last != nil {
		for _, a := range v.APIs {
			if a.Inst == inst && a.API == "Start" && a.Call > last.Ret && a.Call <= idx {
				return nil
			}
		}
	}
	return last
}

// startDuring: was a successful Start issued while stop call a was still running?
// (then the two calls race and "after the stop returned" says nothing about the new run)
func (v *View) startDuring(a *APICall) bool {
	for _, b := range v.APIs {
		if b.Inst == a.Inst && b.API == "Start" && b.Result == "ok" && b.Call > a.Call && (a.Ret < 0 || b.Call < a.Ret) {
			return true
		}
		// (also a Start issued just BEFORE the stop call - same instant, another goroutine - and
		// still in progress when the stop was called: the library may serve the stop first)
		if b.Inst == a.Inst && b.API == "Start" && b.Result == "ok" && b.Call < a.Call && (b.Ret < 0 || b.Ret > a.Call) {
			return true
		}
	}
	return false
}

func fingerprint(parts []string) string {
	h := sha1.Sum([]byte(strings.Join(parts, "\n")))
	return hex.EncodeToString(h[:8])
}

// abstract returns the abstracted trace: sequence of (kind, role, cause) with
// times, tokens and revisions removed. kinds selects which event kinds count.
func (v *View) abstract(kinds map[string]bool) []string {
	var out []string
	role := func(inst string, idx int) string {
		if inst == "" {
			return "-"
		}
		if v.termAt(inst, idx) != nil {
			return "L"
		}
		return "F"
	}
	last := ""
	for idx, e := range v.Ev {
		if !kinds[e.Kind] {
			continue
		}
		var s string
		switch e.Kind {
		case "store.apply":
			if e.Op == "Get" || (e.Op == "Update" && e.OK) {
				continue
			}
			s = fmt.Sprintf("apply:%s:%s:%v:%s", role(e.Inst, idx), e.Op, e.OK, e.Fault)
		case "flag":
			s = fmt.Sprintf("flag:%v:%s", e.Flag, v.causeOf(idx))
		case "cb.promote", "cb.demote":
			s = e.Kind
		case "api.call":
			s = fmt.Sprintf("api:%s:%s:%s", role(e.Inst, idx), e.API, e.S)
		case "api.return":
			s = fmt.Sprintf("ret:%s:%s", e.API, e.Ret)
		case "log":
			if _, ok := causeMsgs[e.Msg]; !ok {
				continue
			}
			s = "log:" + e.Msg
		case "conn.notify":
			s = "conn:" + e.S + ":" + role(e.Inst, idx)
		case "health.check":
			s = "health:" + e.S
		case "action":
			s = "act:" + e.S + ":" + role(e.Inst, idx)
		case "store.expire":
			s = "expire"
		case "watch.deliver", "watch.drop":
			s = e.Kind + ":" + role(e.Inst, idx)
		default:
			s = e.Kind
		}
		if s == last {
			continue
		}
		last = s
		out = append(out, s)
	}
	return out
}

func sortedKeys(m map[string]int) []string {
	var ks []string
	for k := range m {
		ks = append(ks, k)
	}
	sort.Strings(ks)
	return ks
}

func isUserCodeOp(op string) bool {
	return strings.HasPrefix(op, "log:") || strings.HasPrefix(op, "metric:") || strings.HasPrefix(op, "health:")
}

func (v *View) instIndex(name string) int {
	for i, n := range v.Insts {
		if n == name {
			return i
		}
	}
	return -1
}

// startCtxEnded: the application ended the context it had handed to the instance's latest
// Start before event idx, and no stop call has been made since (the election was told to
// stop through its context only).
func (v *View) startCtxEnded(inst string, idx int) bool {
	ended := false
	for j, e := range v.Ev {
		if j >= idx {
			break
		}
		if e.Inst != inst {
			continue
		}
		switch {
		case e.Kind == "start.ctx.cancelled":
			ended = true
		case e.Kind == "api.call" && (e.API == "Stop" || e.API == "StopWithContext"):
			ended = false
		}
	}
	return ended
}

// runningWithin: the instance is started (and not stopped) at some moment of [from, to].
func (v *View) runningWithin(inst string, from, to time.Duration) bool {
	running := false
	for _, a := range v.APIs {
		if a.Inst != inst {
			continue
		}
		if a.CallVT > to {
			break
		}
		if a.API == "Start" && a.Result == "ok" {
			running = true
			continue
		}
		if a.IsStop() && !a.Teardown {
			if a.CallVT >= from {
				// it was running up to this stop call, inside the interval
				if running {
					return true
				}
			}
			running = false
		}
	}
	return running
}

// termEndsAt: a term of the instance ends with the event at position idx.
func (v *View) termEndsAt(inst string, idx int) bool {
	for _, t := range v.Terms[inst] {
		if t.Down == idx {
			return true
		}
	}
	return false
}

// hasDemoteCallback: the harness had registered the instance's callbacks before position idx.
func (v *View) hasDemoteCallback(inst string, idx int) bool {
	for j := 0; j < idx && j < len(v.Ev); j++ {
		if v.Ev[j].Kind == "callbacks.registered" && v.Ev[j].Inst == inst {
			return true
		}
	}
	return false
}

// heldAtSeq: a user-code call of the instance was being held by the harness when event idx
// was recorded (also holds of zero virtual duration: reactions that only take real time).
func (v *View) heldAtSeq(inst string, idx int) bool {
	ii := v.instIndex(inst)
	for _, h := range v.holdSeqs {
		if h[0] == ii && idx >= h[1] && idx <= h[2] {
			return true
		}
	}
	return false
}

// heldAt: a user-code call of the instance was being held by the harness at virtual time vt.
func (v *View) heldAt(inst string, vt time.Duration) bool {
	for _, h := range v.holds {
		if h.Inst == inst && vt >= h.VT && vt <= h.VT+time.Duration(h.N) {
			return true
		}
	}
	return false
}
