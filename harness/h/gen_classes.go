package h

import (
	"fmt"
	"strings"
	"time"
)

func init() {
	generators["lifecycle"] = genLifecycle
	generators["stoppoints"] = genStopPoints
	generators["c03grid"] = genC03Grid
	generators["faulty"] = genFaulty
	generators["c06"] = genC06
	generators["hostile"] = genHostile
	generators["priority"] = genPriority
	generators["priorace"] = genPrioRace
	generators["connection"] = genConnection
	generators["health"] = genHealth
	generators["health2"] = genHealth2
	generators["multiterm"] = genMultiTerm
	generators["yieldstop"] = genYieldStop
	generators["restartinflight"] = genRestartInFlight
	generators["leftover"] = genLeftover
	generators["slowsink"] = genSlowSink
	generators["lateack"] = genLateAck
	generators["sinkrace"] = genSinkRace
	generators["priosucc"] = genPrioSucc
	generators["healthleak"] = genHealthLeak
	generators["holdrace"] = genHoldRace
	generators["twocause"] = genTwoCause
	generators["lateanswer"] = genLateAnswer
	generators["lateregister"] = genLateRegister
	generators["longprobe"] = genLongProbe
	generators["ownprefix"] = genOwnPrefix
	generators["blindrelease"] = genBlindRelease
	generators["refusedthen"] = genRefusedThen
	generators["fastbeat"] = genFastBeat
	generators["slowbeat"] = genSlowBeat
	generators["latepromote"] = genLatePromote
	generators["negprio"] = genNegPrio
	generators["acklosttakeover"] = genAckLostTakeover
	generators["promoterace"] = genPromoteRace
	generators["bigthreshold"] = genBigThreshold
	generators["stalecheck"] = genStaleCheck
	generators["closewatchstop"] = genCloseWatchStop
	generators["bucketreset"] = genBucketReset
	generators["restartinrelease"] = genRestartInRelease
	generators["lateloser"] = genLateLoser
	generators["ordemotetwice"] = genOrDemoteTwice
	generators["stalediag"] = genStaleDiag
	generators["holddown"] = genHoldDown
	generators["busypromote"] = genBusyPromote
	generators["giveupprobe"] = genGiveUpProbe
	generators["stalestamp"] = genStaleStamp
	generators["refuseddelete"] = genRefusedDelete
	generators["bigprio"] = genBigPrio
	generators["latesuccess"] = genLateSuccess
	generators["closewatchlate"] = genCloseWatchLate
	generators["reconnectrenew"] = genReconnectRenew
	generators["sharedround"] = genSharedRound
	generators["latedeleteack"] = genLateDeleteAck
	generators["slowphases"] = genSlowPhases
	generators["twoinflight"] = genTwoInFlight
	generators["outage"] = genOutage
	generators["slowdemote"] = genSlowDemote
	generators["hungrestart"] = genHungRestart
	generators["healthconn"] = genHealthConn
	generators["dupacquire"] = genDupAcquire
	generators["doublestop"] = genDoubleStop
	generators["ctxcancel"] = genCtxCancel
	generators["nowaitrestart"] = genNoWaitRestart
	generators["newlogline"] = genNewLogLine
	generators["healthupd"] = genHealthUpd
	generators["chaintakeover"] = genChainTakeover
}

func anyLatency(r rng, h time.Duration) Latency {
	switch r.IntN(6) {
	case 0:
		return Latency{}
	case 1:
		return Latency{Min: 0, Max: 2 * ms}
	case 2:
		return Latency{Min: 0, Max: h / 8}
	case 3:
		return Latency{Min: h / 8, Max: h/4 - ms}
	case 4:
		return Latency{Min: 0, Max: h / 8, SpikeP: 0.1, SpikeMax: h}
	default:
		return Latency{Min: 5 * ms, Max: 5 * ms}
	}
}

func mkInsts(n, groups int, h time.Duration) []InstSpec {
	var out []InstSpec
	for i := 0; i < n; i++ {
		out = append(out, InstSpec{Name: fmt.Sprintf("i%d", i), Group: fmt.Sprintf("g%d", i%groups), H: h})
	}
	return out
}

func sampleFor(h time.Duration) time.Duration {
	s := h / 2
	if s > 250*ms {
		s = 250 * ms
	}
	if s < 25*ms {
		s = 25 * ms
	}
	return s
}

// ---------------------------------------------------------------------------
// lifecycle: random start/stop/restart with stops placed inside in-flight calls
// ---------------------------------------------------------------------------

func genLifecycle(r rng, k int) *Spec {
	n := 1 + r.IntN(4)
	h := r.pickD(100*ms, 250*ms, 500*ms, 1*sec)
	ratio := r.pickI(3, 4, 5, 10)
	s := &Spec{TTL: time.Duration(ratio) * h, NoPreempt: true, Tags: []string{"lifecycle"}}
	s.Insts = mkInsts(n, 1, h)
	for i := range s.Insts {
		s.Insts[i].ValInterval = r.pickD(0, h, 2*h)
		s.Insts[i].BlockPromote = r.chance(0.5)
		s.Insts[i].DemoteDelay = r.pickD(0, 0, 50*ms)
		if s.Insts[i].BlockPromote && r.chance(0.3) {
			// a leader task that is slow to wind down keeps StopWithContext waiting
			s.Insts[i].PromoteLinger = r.pickD(s.TTL/2, s.TTL+h, 2*s.TTL)
		}
	}
	s.Lat = anyLatency(r, h)
	s.Watch = randWatch(r)
	for i := 0; i < n; i++ {
		s.Actions = append(s.Actions, Action{At: r.dur(0, 2*sec), Kind: "start", Inst: s.Insts[i].Name})
	}
	nb := 1 + r.IntN(3)
	t := 2 * sec
	for b := 0; b < nb; b++ {
		x := s.Insts[r.IntN(n)].Name
		name := fmt.Sprintf("b%d", b)
		op := r.pickS("Create", "Update", "Get", "Watch", "Update", "Create")
		s.Breaks = append(s.Breaks, BreakSpec{Name: name, Client: x, Op: op, Nth: 1 + r.IntN(3), Phase: r.pickS("req", "resp")})
		t += r.dur(100*ms, 4*sec)
		s.Actions = append(s.Actions,
			Action{At: t, Kind: "arm", Break: name},
			Action{After: ms, Kind: "waitbreak", Break: name, D: 6 * sec},
		)
		switch r.IntN(3) {
		case 0:
			s.Actions = append(s.Actions, Action{After: time.Nanosecond, Kind: "stop", Inst: x, Stop: randStop(r)})
		case 1:
			s.Actions = append(s.Actions, Action{After: time.Nanosecond, Kind: "restart", Inst: x, Stop: randStop(r)})
		default:
			s.Actions = append(s.Actions, Action{After: time.Nanosecond, Kind: "stop", Inst: x, Stop: &StopVariant{DeleteKey: true, Wait: r.chance(0.5)}})
		}
		s.Actions = append(s.Actions,
			Action{After: r.pickD(ms, 10*ms, 6*sec), Kind: "release", Break: name},
			Action{After: r.dur(ms, 3*sec), Kind: "start", Inst: x},
		)
		t += 8 * sec
	}
	s.Duration = 10*sec + 20*h
	if r.chance(0.5) {
		s.YieldP, s.YieldMax = 0.3, h/4
	}
	s.Sample = sampleFor(h)
	return s
}

// ---------------------------------------------------------------------------
// stoppoints: enumerated (cell x phase x variant x release delay)
// ---------------------------------------------------------------------------

type spCell struct {
	tmpl string
	inst string
	op   string
	nth  int
}

var spCells = []spCell{
	{"leader", "i0", "Create", 1}, {"leader", "i0", "Update", 1}, {"leader", "i0", "Update", 3},
	{"follower", "i1", "Create", 1}, {"follower", "i1", "Watch", 1}, {"follower", "i1", "Get", 1}, {"follower", "i1", "Get", 3},
	{"succession", "i1", "Create", 2}, {"succession", "i1", "Create", 3}, {"succession", "i1", "Update", 1},
	{"takeover", "i1", "Create", 1}, {"takeover", "i1", "Get", 1}, {"takeover", "i1", "Update", 1}, {"takeover", "i0", "Update", 2},
	{"validation", "i0", "Get", 1}, {"validation", "i0", "Get", 2},
	{"reconnect", "i0", "Get", 1}, {"reconnect", "i0", "Get", 2},
	{"delete", "i0", "Delete", 1},
	{"watchnil", "i1", "Create", 2},
}

func spVariants() []StopVariant {
	vs := []StopVariant{{Plain: true}}
	for _, del := range []bool{false, true} {
		for _, wait := range []bool{false, true} {
			for _, to := range []time.Duration{0, 200 * ms, 10 * sec} {
				vs = append(vs, StopVariant{DeleteKey: del, Wait: wait, Timeout: to})
			}
		}
	}
	vs = append(vs, StopVariant{DeleteKey: true, Wait: true, CtxKind: "deadline", CtxD: 300 * ms})
	vs = append(vs, StopVariant{DeleteKey: true, Wait: true, CtxKind: "cancelmid", CtxD: 300 * ms, Timeout: 10 * sec})
	return vs
}

const (
	spExtraTwice   = 0 // two concurrent stops
	spExtraRestart = 1 // stop then start
)

// StopPointsTotal is the size of the full enumeration.
func StopPointsTotal() int { return len(spCells) * 2 * (len(spVariants()) + 2) * 3 }

func genStopPoints(r rng, k int) *Spec {
	vs := spVariants()
	nv := len(vs) + 2
	total := StopPointsTotal()
	// stride so that a prefix of the list already spreads over all dimensions
	idx := (k * 7919) % total
	cell := spCells[idx%len(spCells)]
	idx /= len(spCells)
	phase := []string{"req", "resp"}[idx%2]
	idx /= 2
	vi := idx % nv
	idx /= nv
	delta := []time.Duration{0, 10 * ms, 6 * sec}[idx%3]

	h := r.pickD(200*ms, 500*ms, 1*sec)
	s := &Spec{TTL: time.Duration(r.pickI(3, 5)) * h, Tags: []string{"lifecycle", "stoppoints", cell.tmpl}}
	s.Lat = Latency{Min: 2 * ms, Max: 10 * ms}
	s.Watch = WatchPolicy{DelayMax: r.pickD(0, 20*ms)}
	s.Insts = mkInsts(2, 1, h)
	s.NoPreempt = true
	for i := range s.Insts {
		s.Insts[i].BlockPromote = r.chance(0.5)
		s.Insts[i].DemoteDelay = r.pickD(0, 30*ms)
	}
	bname := "sp"
	s.Breaks = []BreakSpec{{Name: bname, Client: cell.inst, Op: cell.op, Nth: cell.nth, Phase: phase, Armed: true}}
	pre := []Action{}
	switch cell.tmpl {
	case "leader":
		s.Insts = s.Insts[:1]
		pre = append(pre, Action{At: 10 * ms, Kind: "start", Inst: "i0"})
	case "follower":
		pre = append(pre, Action{At: 10 * ms, Kind: "start", Inst: "i0"}, Action{At: 1 * sec, Kind: "start", Inst: "i1"})
	case "succession":
		pre = append(pre, Action{At: 10 * ms, Kind: "start", Inst: "i0"}, Action{At: 500 * ms, Kind: "start", Inst: "i1"},
			Action{At: 3 * sec, Kind: "stop", Inst: "i0", Stop: &StopVariant{DeleteKey: true}})
	case "watchnil":
		// the initial end-of-watch marker triggers an (untracked) acquisition round on i1
		s.Watch = WatchPolicy{DelayMax: 300 * ms}
		pre = append(pre, Action{At: 10 * ms, Kind: "start", Inst: "i0"}, Action{At: 500 * ms, Kind: "start", Inst: "i1"})
	case "takeover":
		s.NoPreempt = false
		s.Insts[0].Priority, s.Insts[1].Priority = 1, 2
		s.Insts[1].Takeover = true
		pre = append(pre, Action{At: 10 * ms, Kind: "start", Inst: "i0"}, Action{At: 1500 * ms, Kind: "start", Inst: "i1"})
	case "validation":
		s.Insts = s.Insts[:1]
		s.Insts[0].ValInterval = h
		pre = append(pre, Action{At: 10 * ms, Kind: "start", Inst: "i0"})
	case "reconnect":
		s.Insts = s.Insts[:1]
		s.Insts[0].Conn = true
		s.Tags = append(s.Tags, "connection")
		pre = append(pre, Action{At: 10 * ms, Kind: "start", Inst: "i0"}, Action{At: 2 * sec, Kind: "conn", Inst: "i0", Val: "DR"})
	case "delete":
		s.Insts = s.Insts[:1]
		pre = append(pre, Action{At: 10 * ms, Kind: "start", Inst: "i0"}, Action{At: 2 * sec, Kind: "stop", Inst: "i0", Stop: &StopVariant{DeleteKey: true, Wait: true, Timeout: 10 * sec}})
	}
	s.Actions = append(s.Actions, pre...)
	s.Actions = append(s.Actions, Action{After: ms, Kind: "waitbreak", Break: bname, D: 12 * sec})
	x := cell.inst
	switch {
	case vi < len(vs):
		v := vs[vi]
		s.Actions = append(s.Actions, Action{After: time.Nanosecond, Kind: "stop", Inst: x, Stop: &v})
	case vi-len(vs) == spExtraTwice:
		s.Actions = append(s.Actions, Action{After: time.Nanosecond, Kind: "stop", Inst: x, Stop: &StopVariant{Plain: true}},
			Action{After: time.Nanosecond, Kind: "stop", Inst: x, Stop: &StopVariant{DeleteKey: true, Wait: true}})
	case cell.tmpl == "delete":
		// a Start while the first StopWithContext is still parked in its Delete would race
		// with that stop call (outside the property: "stop-then-start" is sequential)
		s.Actions = append(s.Actions, Action{After: time.Nanosecond, Kind: "stop", Inst: x, Stop: &StopVariant{Plain: true}})
	default:
		s.Actions = append(s.Actions, Action{After: time.Nanosecond, Kind: "restart", Inst: x, Stop: &StopVariant{Plain: true}})
	}
	s.Actions = append(s.Actions,
		Action{After: ms, Kind: "waitapi", Inst: x, D: 7 * sec},
		Action{After: delta + time.Nanosecond, Kind: "release", Break: bname},
	)
	s.Duration = 9 * sec
	s.Sample = sampleFor(h)
	return s
}

// ---------------------------------------------------------------------------
// c03grid: fault kind x first faulty attempt x (H, TTL, latency, had-watch-loop)
// ---------------------------------------------------------------------------

var c03Kinds = []string{"err-timeout", "err-noresponders", "err-connclosed", "err-canceled", "err-deadline", "hang", "acklost", "partition", "replaced", "deleted", "expired", "mix-hang-err", "mix-err-hang", "mix-hang-err-acklost"}

func genC03Grid(r rng, k int) *Spec {
	kind := c03Kinds[k%len(c03Kinds)]
	att := 1 + (k/len(c03Kinds))%6
	h := r.pickD(100*ms, 250*ms, 1*sec, 2*sec, 5*sec)
	if n := len(c03Kinds) * 6; k < n*5 { // first passes: sweep H deterministically too
		h = []time.Duration{100 * ms, 250 * ms, 1 * sec, 2 * sec, 5 * sec}[(k/n)%5]
	}
	ratio := r.pickI(3, 5, 10)
	s := &Spec{TTL: time.Duration(ratio) * h, NoPreempt: true, Tags: []string{"c03", kind}}
	switch r.IntN(3) {
	case 0:
		s.Lat = Latency{}
	case 1:
		s.Lat = Latency{Min: 0, Max: 3 * ms}
	default:
		s.Lat = Latency{Min: h / 16, Max: h / 5}
	}
	s.Watch = WatchPolicy{DelayMax: r.pickD(0, 10*ms, 2*h)}
	wasFollower := r.chance(0.5)
	s.Insts = mkInsts(1, 1, h)
	s.Insts[0].ValInterval = r.pickD(0, 0, h, 3*h)
	s.Insts[0].BlockPromote = r.chance(0.3)
	t0 := 10 * ms
	if wasFollower {
		s.Insts = mkInsts(2, 1, h)
		s.Insts[0].ValInterval = r.pickD(0, 0, h, 3*h)
		// i1 leads first, then leaves with key deletion; i0 (follower with a running watch loop) takes over
		s.Actions = append(s.Actions, Action{At: 5 * ms, Kind: "start", Inst: "i1"}, Action{At: 200 * ms, Kind: "start", Inst: "i0"},
			Action{At: 200*ms + 2*h, Kind: "stop", Inst: "i1", Stop: &StopVariant{DeleteKey: true, Wait: true}})
		t0 = 200*ms + 2*h + 700*ms
	} else {
		s.Actions = append(s.Actions, Action{At: t0, Kind: "start", Inst: "i0"})
	}
	switch kind {
	case "err-timeout", "err-noresponders", "err-connclosed", "err-canceled", "err-deadline":
		e := map[string]string{"err-timeout": "timeout", "err-noresponders": "noresponders", "err-connclosed": "connclosed", "err-canceled": "canceled", "err-deadline": "deadline"}[kind]
		s.Rules = append(s.Rules, FaultRule{Client: "i0", Op: "Update", FromOrd: att, Kind: "err", Err: e})
	case "hang":
		s.Rules = append(s.Rules, FaultRule{Client: "i0", Op: "Update", FromOrd: att, Kind: "hang", Err: "timeout"})
	case "acklost":
		s.Rules = append(s.Rules, FaultRule{Client: "i0", Op: "Update", FromOrd: att, Kind: "acklost", Err: "timeout"})
	case "mix-hang-err", "mix-err-hang", "mix-hang-err-acklost":
		// every refresh fails, but not twice in a row in the same way
		seq := map[string][]string{"mix-hang-err": {"hang", "err"}, "mix-err-hang": {"err", "hang"}, "mix-hang-err-acklost": {"hang", "err", "acklost"}}[kind]
		for j := 0; j < 24; j++ {
			s.Rules = append(s.Rules, FaultRule{Client: "i0", Op: "Update", FromOrd: att + j, ToOrd: att + j, Kind: seq[j%len(seq)], Err: r.pickS("timeout", "noresponders", "io")})
		}
	case "partition":
		s.Actions = append(s.Actions, Action{At: t0 + time.Duration(att)*h - r.dur(0, h-ms), Kind: "partition", Inst: "i0"})
	case "replaced":
		val := fmt.Sprintf(`{"id":"intruder","token":"tok-%d","priority":%d}`, k, r.IntN(3))
		s.Actions = append(s.Actions, Action{At: t0 + time.Duration(att)*h - r.dur(0, h-ms), Kind: "output", Inst: "g0", Val: val})
	case "deleted":
		s.Actions = append(s.Actions, Action{At: t0 + time.Duration(att)*h - r.dur(0, h-ms), Kind: "outdel", Inst: "g0"})
	case "expired":
		s.Actions = append(s.Actions, Action{At: t0 + time.Duration(att)*h - r.dur(0, h-ms), Kind: "outexpire", Inst: "g0"})
	}
	s.Duration = 8*h + 8*sec
	s.Sample = sampleFor(h)
	return s
}

// ---------------------------------------------------------------------------
// faulty: random store faults, partitions, crashes, watch failures + lifecycle
// ---------------------------------------------------------------------------

func genFaulty(r rng, k int) *Spec {
	n := 2 + r.IntN(4)
	groups := 1
	if n >= 4 && r.chance(0.3) {
		groups = 2
	}
	h := r.pickD(100*ms, 250*ms, 500*ms, 1*sec)
	s := &Spec{TTL: time.Duration(r.pickI(3, 4, 5, 10)) * h, NoPreempt: true, Tags: []string{"faulty"}}
	s.Insts = mkInsts(n, groups, h)
	for i := range s.Insts {
		s.Insts[i].ValInterval = r.pickD(0, h, 2*h)
		s.Insts[i].BlockPromote = r.chance(0.4)
		s.Insts[i].DemoteDelay = r.pickD(0, 0, 20*ms)
	}
	s.Lat = anyLatency(r, h)
	s.Watch = randWatch(r)
	s.Hang = r.pickD(5*sec, 2*sec)
	T := 30*h + 10*sec
	for i := 0; i < n; i++ {
		s.Actions = append(s.Actions, Action{At: r.dur(0, 1*sec), Kind: "start", Inst: s.Insts[i].Name})
	}
	nf := 1 + r.IntN(5)
	for f := 0; f < nf; f++ {
		x := s.Insts[r.IntN(n)].Name
		at := r.dur(1*sec, T)
		switch r.IntN(9) {
		case 0, 1:
			from := at
			s.Rules = append(s.Rules, FaultRule{Client: x, Op: r.pickS("", "Update", "Get", "Create", "Watch", "Delete"), From: from, To: from + r.dur(200*ms, 5*sec),
				Kind: r.pickS("err", "hang", "acklost"), Err: r.pickS("timeout", "noresponders", "connclosed", "io")})
		case 2:
			s.Actions = append(s.Actions, Action{At: at, Kind: "partition", Inst: x}, Action{At: at + r.dur(200*ms, 8*sec), Kind: "heal", Inst: x})
		case 3:
			s.Actions = append(s.Actions, Action{At: at, Kind: "crash", Inst: x})
		case 4:
			s.Actions = append(s.Actions, Action{At: at, Kind: "closewatch", Inst: x})
		case 5:
			s.Actions = append(s.Actions, Action{At: at, Kind: "stop", Inst: x, Stop: randStop(r)})
		case 6:
			s.Actions = append(s.Actions, Action{At: at, Kind: "restart", Inst: x, Stop: randStop(r)})
		case 7:
			s.Actions = append(s.Actions, Action{At: at, Kind: "outexpire", Inst: s.Insts[r.IntN(n)].Group})
		default:
			s.Rules = append(s.Rules, FaultRule{Client: "*", Op: r.pickS("", "Update", "Get"), From: at, To: at + r.dur(200*ms, 3*sec), Kind: r.pickS("err", "hang"), Err: "timeout"})
		}
	}
	s.Duration = s.TTL + 10*sec
	if r.chance(0.5) {
		s.YieldP, s.YieldMax = 0.3, h/4
	}
	s.Sample = sampleFor(h)
	return s
}

// ---------------------------------------------------------------------------
// c06: vacancy-focused
// ---------------------------------------------------------------------------

var c06Removal = []string{"stop-delete", "stop-nodelete", "crash", "partition", "outdel", "outexpire"}
var c06Cand = []string{"none", "watch-err", "get-err", "create-err", "closewatch", "all-err"}

func genC06(r rng, k int) *Spec {
	rem := c06Removal[k%len(c06Removal)]
	cand := c06Cand[(k/len(c06Removal))%len(c06Cand)]
	wp := []WatchPolicy{{}, {DelayMax: 3 * sec}, {DropP: 0.3, DelayMax: 100 * ms}, {DropP: 1.0}}[(k/36)%4]
	nf := 1 + r.IntN(3)
	h := r.pickD(100*ms, 250*ms, 1*sec)
	s := &Spec{TTL: time.Duration(r.pickI(3, 5)) * h, NoPreempt: true, Tags: []string{"c06", rem, cand}}
	s.Insts = mkInsts(1+nf, 1, h)
	s.Lat = []Latency{{}, {Max: 3 * ms}, {Min: h / 16, Max: h / 5}}[r.IntN(3)]
	s.Watch = wp
	s.Hang = 2 * sec
	s.Actions = append(s.Actions, Action{At: 5 * ms, Kind: "start", Inst: "i0"})
	for i := 1; i <= nf; i++ {
		s.Actions = append(s.Actions, Action{At: 300*ms + r.dur(0, 500*ms), Kind: "start", Inst: s.Insts[i].Name})
	}
	tr := 3*sec + r.dur(0, 2*h)
	switch rem {
	case "stop-delete":
		sv := &StopVariant{DeleteKey: true, Wait: r.chance(0.5)}
		if r.chance(0.4) {
			// the shutdown Delete itself meets a fault: applied but not acknowledged, or an error
			sv.Timeout = 10 * sec
			s.Rules = append(s.Rules, FaultRule{Client: "i0", Op: "Delete", Kind: r.pickS("acklost", "acklost", "err", "hang"), Err: "timeout", Hang: r.pickD(300*ms, 1*sec, 2*sec)})
		}
		s.Actions = append(s.Actions, Action{At: tr, Kind: "stop", Inst: "i0", Stop: sv})
	case "stop-nodelete":
		s.Actions = append(s.Actions, Action{At: tr, Kind: "stop", Inst: "i0", Stop: &StopVariant{Plain: r.chance(0.5)}})
	case "crash":
		s.Actions = append(s.Actions, Action{At: tr, Kind: "crash", Inst: "i0"})
	case "partition":
		s.Actions = append(s.Actions, Action{At: tr, Kind: "partition", Inst: "i0"}, Action{At: tr + s.TTL + 6*sec, Kind: "heal", Inst: "i0"})
	case "outdel":
		s.Actions = append(s.Actions, Action{At: tr, Kind: "outdel", Inst: "g0"})
	case "outexpire":
		s.Actions = append(s.Actions, Action{At: tr, Kind: "outexpire", Inst: "g0"})
	}
	// transient failures on the candidates, ceasing before / around the vacancy
	w0 := r.dur(500*ms, tr)
	w1 := w0 + r.dur(300*ms, 4*sec)
	for i := 1; i <= nf; i++ {
		x := s.Insts[i].Name
		switch cand {
		case "watch-err":
			s.Rules = append(s.Rules, FaultRule{Client: x, Op: "Watch", From: 0, To: w1, Kind: "err", Err: r.pickS("timeout", "noresponders")})
		case "get-err":
			s.Rules = append(s.Rules, FaultRule{Client: x, Op: "Get", From: w0, To: w1, Kind: r.pickS("err", "hang"), Err: "timeout"})
		case "create-err":
			s.Rules = append(s.Rules, FaultRule{Client: x, Op: "Create", From: w0, To: w1, Kind: r.pickS("err", "hang"), Err: "timeout"})
		case "closewatch":
			s.Actions = append(s.Actions, Action{At: r.dur(1500*ms, tr+s.TTL), Kind: "closewatch", Inst: x})
		case "all-err":
			s.Rules = append(s.Rules, FaultRule{Client: x, From: w0, To: w1, Kind: "err", Err: "connclosed"})
		}
	}
	s.Duration = s.TTL + 12*sec
	s.Sample = sampleFor(h)
	return s
}

// ---------------------------------------------------------------------------
// hostile: arbitrary record contents, outside interference, validation probes
// ---------------------------------------------------------------------------

// HostilePayload returns production p of the payload grammar.
func HostilePayload(r rng, p int, own, other string, ownTok string) string {
	switch p {
	case 0:
		return fmt.Sprintf(`{"id":%q,"token":"forged-%d"}`, own, r.IntN(1e6))
	case 1:
		// (foreign tokens are free text: short ones, and ones that happen to contain words an
		// error classifier might look for)
		tok := r.pickS("tok-"+fmt.Sprint(r.IntN(1e6)), "tok-"+fmt.Sprint(r.IntN(1e6)), "t", "ab-1", "lease-temporary-7f3a", "timeout", "net-unavailable", "connection reset by peer", "deadline exceeded", "key not found", "revision mismatch", "invalid", "permission denied")
		return fmt.Sprintf(`{"id":%q,"token":%q,"priority":%d}`, other, tok, r.IntN(4))
	case 2:
		return fmt.Sprintf(`{"id":%q,"token":%q}`, other, ownTok)
	case 3:
		return fmt.Sprintf(`{"id":%q,"token":%q}`, own, ownTok) // forged copy of a plausible own record
	case 4:
		return `{"id":123,"token":"t"}`
	case 5:
		return fmt.Sprintf(`{"id":%q,"token":12345}`, own)
	case 6:
		return fmt.Sprintf(`{"id":%q}`, own)
	case 7:
		return `{"token":"only-token"}`
	case 8:
		return fmt.Sprintf(`{"id":{"x":%q},"token":["a"]}`, own)
	case 9:
		return fmt.Sprintf(`{"id":%q,"id":%q,"token":"d1","token":%q}`, other, own, ownTok)
	case 10:
		return fmt.Sprintf(`{"ID":%q,"Token":%q,"PRIORITY":9}`, own, ownTok)
	case 11:
		return `[1,2,3]`
	case 12:
		return `null`
	case 13:
		return `"just a string"`
	case 14:
		return `42`
	case 15:
		return `{"id":"trunc","tok`
	case 16:
		return ``
	case 17:
		return `{"id":"big","token":"` + strings.Repeat("x", 1<<20) + `"}`
	case 18:
		b := make([]byte, 1+r.IntN(64))
		for i := range b {
			b[i] = byte(r.IntN(256))
		}
		return string(b)
	case 19:
		return fmt.Sprintf(`{"id":%q,"token":"t","priority":"high"}`, other)
	case 20:
		return fmt.Sprintf(`{"id":%q,"token":"t","priority":-5}`, other)
	case 21:
		return fmt.Sprintf(`{"id":%q,"token":"t","priority":%s}`, other, r.pickS("1e30", "1e19", "9223372036854775807", "9223372036854775808", "18446744073709551616", "2.5", "1e1", "-2000000000", "-9223372036854775808", "-9223372036854775807", "2000000000"))
	case 23:
		// a well-formed own record followed by something: the document as a whole is malformed
		// (encoding/json.Unmarshal rejects it; a streaming decoder that stops after the first value does not)
		return fmt.Sprintf(`{"id":%q,"token":%q}`, own, ownTok) + r.pickS("garbage", "]", "}", `{"id":"x"`, ",", "\x00", `"`)
	case 24:
		return fmt.Sprintf(`{"id":%q,"token":%q}{"id":%q,"token":"t2"}`, own, ownTok, other)
	case 25:
		return fmt.Sprintf(`{"id":%q,"token":"t2"}{"id":%q,"token":%q}`, other, own, ownTok)
	case 26:
		return fmt.Sprintf(`[{"id":%q,"token":%q}]`, own, ownTok)
	case 27:
		return fmt.Sprintf(`{"id":%q,"token":%q,"priority":1} trailing`, other, "tok-"+fmt.Sprint(r.IntN(1e6)))
	case 28:
		return fmt.Sprintf(`{"record":{"id":%q,"token":%q}}`, own, ownTok)
	default:
		return `{}`
	}
}

const HostileProductions = 30

func genHostile(r rng, k int) *Spec {
	n := 1 + r.IntN(3)
	h := r.pickD(100*ms, 250*ms, 1*sec)
	s := &Spec{TTL: time.Duration(r.pickI(3, 5, 10)) * h, Tags: []string{"hostile"}}
	s.Insts = mkInsts(n, 1, h)
	takeover := r.chance(0.5)
	for i := range s.Insts {
		s.Insts[i].ValInterval = r.pickD(0, h, 2*h)
		s.Insts[i].DemoteDelay = r.pickD(0, 0, 10*ms)
		if takeover {
			s.Insts[i].Priority = 1 + r.IntN(3)
			s.Insts[i].Takeover = r.chance(0.7)
		}
	}
	s.NoPreempt = !takeover
	switch r.IntN(4) {
	case 0:
		s.Lat = Latency{}
	case 1:
		s.Lat = Latency{Min: 5 * ms, Max: 5 * ms}
	default:
		s.Lat = Latency{Max: h / 10}
	}
	s.Watch = WatchPolicy{DelayMax: r.pickD(0, 20*ms, 500*ms), DropP: r.pickF(0, 0, 0.3), DupP: r.pickF(0, 0.2)}
	T := 20*h + 6*sec
	// sometimes the record is already hostile before anybody starts
	if r.chance(0.3) {
		s.Actions = append(s.Actions, Action{At: 1 * ms, Kind: "output", Inst: "g0", Val: HostilePayload(r, (k+7)%HostileProductions, "i0", "stranger", "t0")})
	}
	for i := 0; i < n; i++ {
		s.Actions = append(s.Actions, Action{At: r.dur(2*ms, 1*sec), Kind: "start", Inst: s.Insts[i].Name})
	}
	nw := 1 + r.IntN(5)
	for w := 0; w < nw; w++ {
		at := r.dur(500*ms, T)
		p := (k + w*5) % HostileProductions
		own := s.Insts[r.IntN(n)].Name
		switch r.IntN(8) {
		case 0:
			s.Actions = append(s.Actions, Action{At: at, Kind: "outdel", Inst: "g0"})
		case 1:
			s.Actions = append(s.Actions, Action{At: at, Kind: "outexpire", Inst: "g0"})
		default:
			s.Actions = append(s.Actions, Action{At: at, Kind: "output", Inst: "g0", Val: HostilePayload(r, p, own, r.pickS("stranger", "i9", s.Insts[r.IntN(n)].Name), "@OWNTOKEN@")})
		}
	}
	// validation probes
	np := 4 + r.IntN(10)
	for p := 0; p < np; p++ {
		a := Action{At: r.dur(100*ms, T), Kind: "validate", Inst: s.Insts[r.IntN(n)].Name, OrDemote: r.chance(0.4)}
		switch r.IntN(5) {
		case 0:
			a.Val = "cancelled"
		case 1:
			a.Val, a.D = "deadline", r.pickD(0, ms, 3*ms, 1*sec)
		default:
			a.Val = "bg"
		}
		s.Actions = append(s.Actions, a)
	}
	// a probe racing an outside write through a breakpoint inside the validation's Get
	if r.chance(0.5) {
		x := s.Insts[0].Name
		s.Breaks = append(s.Breaks, BreakSpec{Name: "vg", Client: x, Op: "Get", Nth: 1, Phase: r.pickS("req", "resp")})
		t := r.dur(2*sec, T)
		s.Actions = append(s.Actions,
			Action{At: t, Kind: "arm", Break: "vg"},
			Action{After: time.Nanosecond, Kind: "validate", Inst: x, Val: "bg", OrDemote: r.chance(0.5)},
			Action{After: ms, Kind: "waitbreak", Break: "vg", D: 2 * sec},
			Action{After: time.Nanosecond, Kind: "output", Inst: "g0", Val: HostilePayload(r, r.IntN(HostileProductions), x, "stranger", "@OWNTOKEN@")},
		)
		if r.chance(0.6) {
			// a second validation that begins after the change, while the first one's read
			// (served before the change) is still held back
			s.Actions = append(s.Actions, Action{After: r.pickD(time.Nanosecond, ms), Kind: "validate", Inst: x, Val: "bg", OrDemote: r.chance(0.3)},
				Action{After: r.pickD(ms, 10*ms), Kind: "sample"})
		}
		s.Actions = append(s.Actions,
			Action{After: r.pickD(time.Nanosecond, 5*ms), Kind: "release", Break: "vg"},
		)
	}
	if r.chance(0.3) {
		s.Rules = append(s.Rules, FaultRule{Client: s.Insts[0].Name, Op: "Get", From: r.dur(1*sec, T), Kind: r.pickS("err", "hang"), Err: "timeout"})
		s.Rules[len(s.Rules)-1].To = s.Rules[len(s.Rules)-1].From + r.dur(100*ms, 3*sec)
	}
	s.Duration = s.TTL + 6*sec
	if r.chance(0.5) {
		s.YieldP, s.YieldMax = 0.3, h/4
	}
	s.Sample = sampleFor(h)
	return s
}

// ---------------------------------------------------------------------------
// priority: exhaustive assignments for 2-3 instances (promptness premise)
// ---------------------------------------------------------------------------

// PriorityTotal: exhaustive cases for n=2 and n=3.
func PriorityTotal() int { return 9*4*3 + 27*8*7 }

func genPriority(r rng, k int) *Spec {
	total := PriorityTotal()
	idx := k % total
	n := 2
	if idx >= 9*4*3 {
		idx -= 9 * 4 * 3
		n = 3
	}
	h := r.pickD(200*ms, 500*ms, 1*sec)
	s := &Spec{TTL: time.Duration(r.pickI(3, 5)) * h, Prompt: true, Tags: []string{"priority"}}
	s.Insts = mkInsts(n, 1, h)
	for i := 0; i < n; i++ {
		s.Insts[i].Priority = 1 + idx%3
		idx /= 3
	}
	for i := 0; i < n; i++ {
		s.Insts[i].Takeover = idx%2 == 1
		idx /= 2
	}
	order := idx
	s.Lat = Latency{Min: 0, Max: h / 20}
	if r.chance(0.3) {
		s.Lat = Latency{}
	}
	s.Watch = WatchPolicy{DelayMax: r.pickD(0, h/10)}
	var perm []int
	simultaneous := false
	if n == 2 {
		switch order % 3 {
		case 0:
			perm = []int{0, 1}
		case 1:
			perm = []int{1, 0}
		default:
			perm, simultaneous = []int{0, 1}, true
		}
	} else {
		perms := [][]int{{0, 1, 2}, {0, 2, 1}, {1, 0, 2}, {1, 2, 0}, {2, 0, 1}, {2, 1, 0}}
		if order%7 == 6 {
			perm, simultaneous = perms[0], true
		} else {
			perm = perms[order%7]
		}
	}
	t := 10 * ms
	for _, p := range perm {
		s.Actions = append(s.Actions, Action{At: t, Kind: "start", Inst: s.Insts[p].Name})
		if !simultaneous {
			t += 2*h + r.dur(0, h)
		}
	}
	s.Duration = time.Duration(3*(n+2)+14) * h
	s.Sample = sampleFor(h)
	return s
}

// priorace: takeover racing the incumbent's heartbeat, restarts, mixed sizes.
func genPrioRace(r rng, k int) *Spec {
	n := 2 + r.IntN(4)
	h := r.pickD(100*ms, 250*ms, 1*sec)
	s := &Spec{TTL: time.Duration(r.pickI(3, 5, 10)) * h, Tags: []string{"priority", "race"}}
	s.Insts = mkInsts(n, 1, h)
	for i := range s.Insts {
		s.Insts[i].Priority = 1 + r.IntN(3)
		s.Insts[i].Takeover = r.chance(0.6)
		s.Insts[i].ValInterval = r.pickD(0, h)
	}
	s.Lat = anyLatency(r, h)
	s.Watch = randWatch(r)
	for i := 0; i < n; i++ {
		s.Actions = append(s.Actions, Action{At: r.dur(0, 3*sec), Kind: "start", Inst: s.Insts[i].Name})
	}
	// candidate's Get applied, incumbent's Update applied, then candidate's Update
	c := s.Insts[r.IntN(n)].Name
	s.Breaks = append(s.Breaks, BreakSpec{Name: "cg", Client: c, Op: "Get", Nth: 1, Phase: "resp", Armed: r.chance(0.7)})
	s.Actions = append(s.Actions, Action{At: 3*sec + ms, Kind: "waitbreak", Break: "cg", D: 3 * sec}, Action{After: r.dur(0, 2*h), Kind: "release", Break: "cg"})
	m := r.IntN(4)
	for j := 0; j < m; j++ {
		s.Actions = append(s.Actions, Action{After: r.dur(100*ms, 3*sec), Kind: r.pickS("restart", "stop", "start"), Inst: s.Insts[r.IntN(n)].Name, Stop: randStop(r)})
	}
	s.Duration = 20*h + 8*sec
	if r.chance(0.5) {
		s.YieldP, s.YieldMax = 0.3, h/4
	}
	s.Sample = sampleFor(h)
	return s
}

// ---------------------------------------------------------------------------
// connection: notification words, flapping, outages
// ---------------------------------------------------------------------------

func genConnection(r rng, k int) *Spec {
	h := r.pickD(100*ms, 1*sec, 2*sec)
	grace := []time.Duration{0, 2 * h, 3 * h, 10 * h}[k%4]
	G := grace
	if G == 0 {
		G = 3 * h
		if G < 5*sec {
			G = 5 * sec
		}
	}
	s := &Spec{TTL: time.Duration(r.pickI(3, 5, 10)) * h, NoPreempt: true, Tags: []string{"connection"}}
	n := 1 + r.IntN(2)
	s.Insts = mkInsts(n, 1, h)
	for i := range s.Insts {
		s.Insts[i].Conn = true
		s.Insts[i].Grace = grace
		s.Insts[i].ValInterval = r.pickD(0, 0, 2*h)
		s.Insts[i].DemoteDelay = r.pickD(0, 0, 20*ms)
		s.Insts[i].BlockPromote = r.chance(0.3)
	}
	s.Lat = []Latency{{}, {Max: 3 * ms}, {Min: ms, Max: h / 10}}[r.IntN(3)]
	s.Watch = WatchPolicy{DelayMax: r.pickD(0, 20*ms)}
	s.Hang = r.pickD(2*sec, 5*sec)
	s.Actions = append(s.Actions, Action{At: 5 * ms, Kind: "start", Inst: "i0"})
	if n > 1 {
		s.Actions = append(s.Actions, Action{At: 300 * ms, Kind: "start", Inst: "i1"})
	}
	if k%5 == 4 {
		// reconnect, a second outage during which the record changes hands while the
		// first verification's read is still in flight, reconnect again
		t := 1*sec + r.dur(0, h)
		s.Breaks = append(s.Breaks, BreakSpec{Name: "vr", Client: "i0", Op: "Get", Nth: 1 + r.IntN(2), Phase: "resp"})
		usurper := `{"id":"usurper","token":"u-2"}`
		s.Actions = append(s.Actions,
			Action{At: t, Kind: "conn", Inst: "i0", Val: "D"},
			Action{After: r.dur(ms, 50*ms), Kind: "arm", Break: "vr"},
			Action{After: time.Nanosecond, Kind: "conn", Inst: "i0", Val: "R"},
			Action{After: ms, Kind: "waitbreak", Break: "vr", D: 2 * sec},
			Action{After: time.Nanosecond, Kind: "conn", Inst: "i0", Val: "D"},
			Action{After: r.dur(time.Nanosecond, 5*ms), Kind: "output", Inst: "g0", Val: usurper},
			Action{After: r.dur(time.Nanosecond, 5*ms), Kind: "conn", Inst: "i0", Val: "R"},
			Action{After: r.dur(ms, 30*ms), Kind: "release", Break: "vr"},
		)
		// keep the usurper's record alive so that only the verification can notice in time
		for j := 1; j <= 12; j++ {
			s.Actions = append(s.Actions, Action{At: t + 200*ms + time.Duration(j)*s.TTL/2, Kind: "output", Inst: "g0", Val: usurper})
		}
		s.Insts[0].ValInterval = 0
		s.Duration = 2*G + 4*sec
		s.Sample = sampleFor(h)
		return s
	}
	if k%7 == 6 && G >= sec {
		// disconnect while leading; leadership lost by another path; reconnect while a
		// follower; leadership regained - all inside one grace period: the old grace timer
		// has nothing to say about the new term
		t := 1*sec + r.dur(0, h)
		s.Insts = s.Insts[:1]
		s.Actions = s.Actions[:1]
		s.Actions = append(s.Actions, Action{At: t, Kind: "conn", Inst: "i0", Val: "D"})
		switch r.IntN(3) {
		case 0:
			s.Actions = append(s.Actions, Action{At: t + G/10, Kind: "output", Inst: "g0", Val: `{"id":"usurper","token":"u-3"}`})
		case 1:
			s.Actions = append(s.Actions, Action{At: t + G/10, Kind: "outdel", Inst: "g0"}, Action{After: ms, Kind: "output", Inst: "g0", Val: `{"id":"usurper","token":"u-4"}`})
		default:
			s.Actions = append(s.Actions, Action{At: t + G/10, Kind: "rule", Rule: &FaultRule{Client: "i0", Op: "Get", ToOrd: 1 << 20, To: t + G/10 + 50*ms, Kind: "err", Err: "timeout"}},
				Action{After: ms, Kind: "validate", Inst: "i0", Val: "bg", OrDemote: true},
				Action{After: 10 * ms, Kind: "outdel", Inst: "g0"}, Action{After: ms, Kind: "output", Inst: "g0", Val: `{"id":"usurper","token":"u-5"}`})
		}
		s.Actions = append(s.Actions,
			Action{At: t + 2*G/10, Kind: "conn", Inst: "i0", Val: "R"},
			Action{At: t + 3*G/10, Kind: "outdel", Inst: "g0"},
		)
		s.Tags = append(s.Tags, "regain")
		s.Duration = 2*G + 4*sec
		s.Sample = sampleFor(h)
		return s
	}
	t := 1*sec + r.dur(0, h)
	L := 1 + r.IntN(6)
	gaps := []time.Duration{0, ms, 99 * ms, 100 * ms, 101 * ms, G - ms, G, G + ms, 2 * G, G / 2, 3 * sec}
	outage := r.IntN(5)
	for j := 0; j < L; j++ {
		ev := r.pickS("D", "D", "R", "R", "C")
		if j == 0 {
			ev = r.pickS("D", "D", "D", "R")
		}
		s.Actions = append(s.Actions, Action{At: t, Kind: "conn", Inst: "i0", Val: ev})
		if ev == "D" && j == 0 {
			switch outage {
			case 1:
				s.Actions = append(s.Actions, Action{At: t, Kind: "partition", Inst: "i0"}, Action{At: t + r.dur(100*ms, 2*G), Kind: "heal", Inst: "i0"})
			case 2:
				s.Actions = append(s.Actions, Action{At: t + r.dur(0, G), Kind: "output", Inst: "g0", Val: `{"id":"usurper","token":"u-1"}`})
			case 3:
				s.Actions = append(s.Actions, Action{At: t + r.dur(0, G), Kind: "outexpire", Inst: "g0"})
			case 4:
				s.Rules = append(s.Rules, FaultRule{Client: "i0", Op: "Get", From: t, To: t + 2*G + 3*sec, Kind: r.pickS("err", "hang"), Err: "timeout"})
			}
		}
		t += gaps[r.IntN(len(gaps))]
	}
	if r.chance(0.25) {
		s.Actions = append(s.Actions, Action{At: 1*sec + r.dur(0, t), Kind: "stop", Inst: "i0", Stop: randStop(r)})
	}
	s.Duration = 2*G + 4*sec
	s.Sample = sampleFor(h)
	return s
}

// ---------------------------------------------------------------------------
// health: exhaustive result words x thresholds (single instance)
// ---------------------------------------------------------------------------

// HealthTotal: words of length 1..6 over {h,u,s,S} x thresholds {0,1,2,3,4}.
func HealthTotal() int {
	t := 0
	p := 1
	for l := 1; l <= 6; l++ {
		p *= 4
		t += p
	}
	return t * 5
}

func healthWord(idx int) string {
	for l := 1; l <= 6; l++ {
		c := 1 << (2 * uint(l))
		if idx < c {
			b := make([]byte, l)
			for i := 0; i < l; i++ {
				b[i] = "hus S"[0]
				b[i] = []byte{'h', 'u', 's', 'S'}[idx%4]
				idx /= 4
			}
			return string(b)
		}
		idx -= c
	}
	return "h"
}

func genHealth(r rng, k int) *Spec {
	total := HealthTotal()
	idx := (k * 7919) % total
	M := idx % 5
	word := healthWord(idx / 5)
	h := 100 * ms
	s := &Spec{TTL: 3 * h, NoPreempt: true, Tags: []string{"health"}}
	s.Insts = mkInsts(1, 1, h)
	// the word repeats so that several terms see it (carry-over between terms)
	s.Insts[0].Health = strings.Repeat(word, 4)
	s.Insts[0].HealthOn = true
	s.Insts[0].MaxFail = M
	s.Lat = Latency{Max: r.pickD(0, 2*ms)}
	s.Actions = append(s.Actions, Action{At: 5 * ms, Kind: "start", Inst: "i0"})
	s.Duration = time.Duration(len(word)*4+12)*h + 4*s.TTL + 2*sec
	s.Sample = 50 * ms
	return s
}

// health2: long random scripts, several terms ended by different causes.
func genHealth2(r rng, k int) *Spec {
	h := r.pickD(100*ms, 250*ms)
	s := &Spec{TTL: time.Duration(r.pickI(3, 5)) * h, NoPreempt: true, Tags: []string{"health"}}
	n := 1 + r.IntN(2)
	s.Insts = mkInsts(n, 1, h)
	for i := range s.Insts {
		L := 10 + r.IntN(40)
		b := make([]byte, L)
		pu := r.pickF(0.2, 0.4, 0.6)
		for j := range b {
			switch {
			case r.Float64() < pu:
				b[j] = 'u'
			case r.chance(0.1):
				b[j] = r.pickS("s", "S")[0]
			default:
				b[j] = 'h'
			}
		}
		s.Insts[i].Health = string(b)
		s.Insts[i].HealthOn = true
		s.Insts[i].MaxFail = r.IntN(9)
		s.Insts[i].DemoteDelay = r.pickD(0, 0, 10*ms)
	}
	s.Lat = Latency{Max: r.pickD(0, 2*ms, h/10)}
	s.Watch = WatchPolicy{DelayMax: r.pickD(0, 20*ms)}
	T := 60*h + 5*sec
	for i := 0; i < n; i++ {
		s.Actions = append(s.Actions, Action{At: r.dur(0, 300*ms), Kind: "start", Inst: s.Insts[i].Name})
	}
	m := r.IntN(5)
	for j := 0; j < m; j++ {
		at := r.dur(500*ms, T)
		switch r.IntN(4) {
		case 0:
			s.Actions = append(s.Actions, Action{At: at, Kind: "outdel", Inst: "g0"})
		case 1:
			s.Actions = append(s.Actions, Action{At: at, Kind: "restart", Inst: s.Insts[r.IntN(n)].Name, Stop: &StopVariant{Plain: true}})
		case 2:
			s.Actions = append(s.Actions, Action{At: at, Kind: "outexpire", Inst: "g0"})
		default:
			s.Actions = append(s.Actions, Action{At: at, Kind: "output", Inst: "g0", Val: `{"id":"intruder","token":"x"}`})
		}
	}
	s.Duration = s.TTL + 4*sec
	s.Sample = sampleFor(h)
	return s
}

// ---------------------------------------------------------------------------
// multiterm: many terms per instance, several demotion causes armed together
// ---------------------------------------------------------------------------

func genMultiTerm(r rng, k int) *Spec {
	n := 1 + r.IntN(3)
	h := r.pickD(100*ms, 250*ms)
	s := &Spec{TTL: time.Duration(r.pickI(3, 5)) * h, Tags: []string{"multiterm"}}
	s.Insts = mkInsts(n, 1, h)
	prio := r.chance(0.4)
	for i := range s.Insts {
		s.Insts[i].ValInterval = r.pickD(h, h, 2*h, 0)
		s.Insts[i].BlockPromote = r.chance(0.7)
		s.Insts[i].DemoteDelay = r.pickD(0, 0, 20*ms)
		if r.chance(0.4) {
			s.Insts[i].HealthOn = true
			s.Insts[i].MaxFail = 1 + r.IntN(3)
			b := make([]byte, 60)
			for j := range b {
				b[j] = r.pickS("h", "h", "h", "u")[0]
			}
			s.Insts[i].Health = string(b)
		}
		if r.chance(0.4) {
			s.Insts[i].Conn = true
			s.Insts[i].Grace = r.pickD(2*h, 3*h)
		}
		if prio {
			s.Insts[i].Priority = 1 + r.IntN(3)
			s.Insts[i].Takeover = r.chance(0.6)
		}
	}
	s.NoPreempt = !prio
	s.Lat = Latency{Max: r.pickD(0, 2*ms, h/10)}
	s.Watch = WatchPolicy{DelayMax: r.pickD(0, 20*ms, 300*ms), DupP: r.pickF(0, 0.2)}
	s.Hang = 2 * sec
	T := 80*h + 8*sec
	for i := 0; i < n; i++ {
		s.Actions = append(s.Actions, Action{At: r.dur(0, 300*ms), Kind: "start", Inst: s.Insts[i].Name})
	}
	m := 3 + r.IntN(8)
	for j := 0; j < m; j++ {
		at := r.dur(500*ms, T)
		x := s.Insts[r.IntN(n)].Name
		switch r.IntN(10) {
		case 0:
			s.Actions = append(s.Actions, Action{At: at, Kind: "outdel", Inst: "g0"})
		case 1:
			s.Actions = append(s.Actions, Action{At: at, Kind: "outexpire", Inst: "g0"})
		case 2:
			s.Actions = append(s.Actions, Action{At: at, Kind: "output", Inst: "g0", Val: `{"id":"intruder","token":"x"}`})
		case 3:
			s.Actions = append(s.Actions, Action{At: at, Kind: "restart", Inst: x, Stop: randStop(r)})
		case 4:
			s.Rules = append(s.Rules, FaultRule{Client: x, Op: r.pickS("Update", "Update", "Create"), From: at, To: at + r.dur(h, 6*h), Kind: r.pickS("err", "hang", "acklost"), Err: "timeout"})
		case 5:
			s.Actions = append(s.Actions, Action{At: at, Kind: "validate", Inst: x, Val: "bg", OrDemote: true})
		case 6:
			s.Actions = append(s.Actions, Action{At: at, Kind: "conn", Inst: x, Val: r.pickS("D", "DR", "DRD", "R")})
		case 7:
			// several causes in one tick: record replaced while the store starts failing
			s.Actions = append(s.Actions, Action{At: at, Kind: "output", Inst: "g0", Val: `{"id":"intruder","token":"y"}`})
			s.Rules = append(s.Rules, FaultRule{Client: x, From: at, To: at + 3*h, Kind: "err", Err: "timeout"})
		case 8:
			s.Actions = append(s.Actions, Action{At: at, Kind: "stop", Inst: x, Stop: randStop(r)}, Action{After: ms, Kind: "waitapi", Inst: x, D: 12 * sec}, Action{After: r.dur(100*ms, 2*sec), Kind: "start", Inst: x})
		default:
			s.Actions = append(s.Actions, Action{At: at, Kind: "partition", Inst: x}, Action{At: at + r.dur(3*h, 10*h), Kind: "heal", Inst: x})
		}
	}
	s.Duration = s.TTL + 8*sec
	if r.chance(0.5) {
		s.YieldP, s.YieldMax = 0.3, h/4
	}
	s.Sample = sampleFor(h)
	return s
}

// ---------------------------------------------------------------------------
// yieldstop: the stopping instance is parked at an in-library yield site (between
// two non-store steps) while the stop call runs; benign otherwise (store latency
// far below H/2, no faults): only the scheduling of the stopped instance is perturbed
// ---------------------------------------------------------------------------

type ysCell struct {
	tmpl string
	inst string
	site string
	nth  int
}

var ysCells = []ysCell{
	{"leader2", "i0", "becomeLeaderEntry", 1},
	{"succession", "i1", "becomeLeaderEntry", 2},
	{"succession", "i1", "roundBeforeAttempt", 1},
	{"follower", "i1", "periodicAfterLeaderTest", 1},
	{"follower", "i1", "settleAsFollower", 1},
	{"follower", "i1", "watchAfterLeaderTest", 1},
	{"leader2", "i0", "heartbeatAfterRevLoad", 2},
	{"leader2", "i0", "promoteGoroutineEntry", 1},
	{"succession", "i1", "promoteGoroutineEntry", 2},
	{"deltail", "i0", "stopBetweenReadAndDelete", 1},
}

// YieldStopTotal is the size of the full enumeration.
func YieldStopTotal() int { return len(ysCells) * (len(spVariants()) + 2) * 3 }

func genYieldStop(r rng, k int) *Spec {
	vs := spVariants()
	nv := len(vs) + 2
	idx := (k * 7919) % YieldStopTotal()
	cell := ysCells[idx%len(ysCells)]
	idx /= len(ysCells)
	vi := idx % nv
	idx /= nv
	delta := []time.Duration{0, 10 * ms, 1 * sec}[idx%3]
	h := r.pickD(200*ms, 500*ms, 1*sec)
	s := &Spec{TTL: time.Duration(r.pickI(3, 5)) * h, Benign: true, NoPreempt: true, Tags: []string{"lifecycle", "yieldstop", cell.tmpl, cell.site}}
	s.Lat = Latency{Min: 2 * ms, Max: 10 * ms}
	s.Watch = WatchPolicy{DelayMax: r.pickD(0, 20*ms)}
	s.Insts = mkInsts(2, 1, h)
	for i := range s.Insts {
		s.Insts[i].BlockPromote = r.chance(0.5)
	}
	s.Breaks = []BreakSpec{{Name: "ys", Client: "*", Op: "yield:" + cell.site, Nth: cell.nth, Phase: "site", Armed: true}}
	switch cell.tmpl {
	case "leader2":
		s.Actions = append(s.Actions, Action{At: 10 * ms, Kind: "start", Inst: "i0"}, Action{At: 300 * ms, Kind: "start", Inst: "i1"})
	case "follower":
		s.Actions = append(s.Actions, Action{At: 10 * ms, Kind: "start", Inst: "i0"}, Action{At: 1 * sec, Kind: "start", Inst: "i1"})
	case "succession":
		s.Actions = append(s.Actions, Action{At: 10 * ms, Kind: "start", Inst: "i0"}, Action{At: 500 * ms, Kind: "start", Inst: "i1"},
			Action{At: 3 * sec, Kind: "stop", Inst: "i0", Stop: &StopVariant{DeleteKey: true}})
	}
	if cell.tmpl == "deltail" {
		// the graceful shutdown itself is parked between its ownership read and its Delete;
		// the election is started again meanwhile (its lifecycle lock is free by then), and
		// the Delete lands in the new run
		s.Actions = append(s.Actions, Action{At: 10 * ms, Kind: "start", Inst: "i0"}, Action{At: 300 * ms, Kind: "start", Inst: "i1"},
			Action{At: 2 * sec, Kind: "stop", Inst: "i0", Stop: &StopVariant{DeleteKey: true, Wait: vi%2 == 0, Timeout: 10 * sec}},
			Action{After: ms, Kind: "waitbreak", Break: "ys", D: 5 * sec},
			Action{After: time.Nanosecond, Kind: "start", Inst: "i0"},
			Action{After: delta + r.pickD(ms, 30*ms, 200*ms), Kind: "release", Break: "ys"},
			Action{After: ms, Kind: "waitapi", Inst: "i0", D: 7 * sec},
		)
		// (the parked window is exactly the read-then-delete window of the recorded finding
		// C01 delete-foreign:after-own-read: not part of the benign premise)
		s.Benign = false
		s.Duration = 9 * sec
		s.Sample = sampleFor(h)
		return s
	}
	s.Actions = append(s.Actions, Action{After: ms, Kind: "waitbreak", Break: "ys", D: 12 * sec})
	x := cell.inst
	switch {
	case vi < len(vs):
		v := vs[vi]
		s.Actions = append(s.Actions, Action{After: time.Nanosecond, Kind: "stop", Inst: x, Stop: &v})
	case vi-len(vs) == spExtraTwice:
		s.Actions = append(s.Actions, Action{After: time.Nanosecond, Kind: "stop", Inst: x, Stop: &StopVariant{Plain: true}},
			Action{After: time.Nanosecond, Kind: "stop", Inst: x, Stop: &StopVariant{DeleteKey: true, Wait: true}})
	default:
		s.Actions = append(s.Actions, Action{After: time.Nanosecond, Kind: "restart", Inst: x, Stop: &StopVariant{Plain: true}})
	}
	// The parked goroutine is released shortly after the stop call was issued (a
	// preemption-sized delay): tracked goroutines keep the stop call waiting meanwhile,
	// untracked ones let it return first. Parking one goroutine for longer than the stop
	// call's own wait would be a schedule the Go runtime cannot produce.
	s.Actions = append(s.Actions,
		Action{After: delta + time.Nanosecond, Kind: "release", Break: "ys"},
		Action{After: ms, Kind: "waitapi", Inst: x, D: 7 * sec},
	)
	if vi >= len(vs) && vi-len(vs) != spExtraTwice {
		// stop-then-start: the released goroutine legitimately continues in the new run
		s.Benign = false
	}
	s.Duration = 9 * sec
	s.Sample = sampleFor(h)
	return s
}

// ---------------------------------------------------------------------------
// restartinflight: an acquisition's store call is in flight across a stop call and
// the following Start; its (successful) answer arrives in the new run
// ---------------------------------------------------------------------------

// RestartInFlightTotal is the size of the enumeration.
func RestartInFlightTotal() int { return 3 * 2 * 4 * 3 }

func genRestartInFlight(r rng, k int) *Spec {
	idx := k % RestartInFlightTotal()
	tmpl := []string{"first", "succession", "takeover"}[idx%3]
	idx /= 3
	phase := []string{"req", "resp"}[idx%2]
	idx /= 2
	stopv := []StopVariant{
		{DeleteKey: false, Wait: false, Timeout: 200 * ms}, // gives up quickly: the restart follows at once
		{DeleteKey: true, Wait: true, Timeout: 200 * ms},
		{Plain: true}, // waits its 5 s for the parked (tracked) goroutine
		{DeleteKey: true, Wait: false, CtxKind: "cancelmid", CtxD: 100 * ms, Timeout: 10 * sec},
	}[idx%4]
	idx /= 4
	delta := []time.Duration{0, 10 * ms, 1 * sec}[idx%3]
	// TTL well above the 5 s a plain Stop waits for the parked goroutine: the record written
	// by the in-flight call is still live when its answer arrives in the new run (answers
	// delayed beyond the TTL are the lifecycle class's business)
	h := r.pickD(1*sec, 2*sec)
	s := &Spec{TTL: 10 * h, Tags: []string{"lifecycle", "restartinflight", tmpl}, NoPreempt: tmpl != "takeover"}
	s.Lat = Latency{Min: 2 * ms, Max: 10 * ms}
	s.Watch = WatchPolicy{DelayMax: r.pickD(0, 20*ms)}
	s.Insts = mkInsts(2, 1, h)
	for i := range s.Insts {
		s.Insts[i].BlockPromote = true
	}
	x := "i0"
	var b BreakSpec
	switch tmpl {
	case "first":
		s.Insts = s.Insts[:1]
		b = BreakSpec{Name: "rf", Client: "i0", Op: "Create", Nth: 1, Phase: phase, Armed: true}
		s.Actions = append(s.Actions, Action{At: 10 * ms, Kind: "start", Inst: "i0"})
	case "succession":
		x = "i1"
		b = BreakSpec{Name: "rf", Client: "i1", Op: "Create", Nth: 2, Phase: phase, Armed: true}
		s.Actions = append(s.Actions, Action{At: 10 * ms, Kind: "start", Inst: "i0"}, Action{At: 500 * ms, Kind: "start", Inst: "i1"},
			Action{At: 3 * sec, Kind: "stop", Inst: "i0", Stop: &StopVariant{DeleteKey: true}})
	case "takeover":
		x = "i1"
		s.Insts[0].Priority, s.Insts[1].Priority = 1, 2
		s.Insts[1].Takeover = true
		b = BreakSpec{Name: "rf", Client: "i1", Op: "Update", Nth: 1, Phase: phase, Armed: true}
		s.Actions = append(s.Actions, Action{At: 10 * ms, Kind: "start", Inst: "i0"}, Action{At: 1500 * ms, Kind: "start", Inst: "i1"})
	}
	s.Breaks = []BreakSpec{b}
	sv := stopv
	s.Actions = append(s.Actions,
		Action{After: ms, Kind: "waitbreak", Break: "rf", D: 12 * sec},
		Action{After: time.Nanosecond, Kind: "restart", Inst: x, Stop: &sv},
		Action{After: ms, Kind: "waitapi", Inst: x, D: 8 * sec},
		Action{After: delta + time.Nanosecond, Kind: "release", Break: "rf"},
	)
	s.Duration = 6*h + 6*sec
	s.Sample = sampleFor(h)
	return s
}

// ---------------------------------------------------------------------------
// leftover: fault-free successions in which several acquisition rounds of the same
// instance run side by side (every watch event duplicated, periodic check) and the
// winning round is held for a preemption-sized moment between its store call and
// becomeLeader, or at the other in-library windows, so that the leftover rounds
// overlap it
// ---------------------------------------------------------------------------

func genLeftover(r rng, k int) *Spec {
	n := 2 + r.IntN(2)
	h := r.pickD(200*ms, 500*ms, 1*sec)
	s := &Spec{TTL: time.Duration(r.pickI(3, 5, 10)) * h, Benign: true, NoPreempt: true, Tags: []string{"leftover"}}
	s.Insts = mkInsts(n, 1, h)
	mode := k % 3 // 0: no priorities, 1: takeover on with equal priorities, 2: takeover on for some, equal priorities
	for i := range s.Insts {
		s.Insts[i].BlockPromote = r.chance(0.5)
		s.Insts[i].ValInterval = r.pickD(0, h, 2*h)
		if mode > 0 {
			s.Insts[i].Priority = 2
			s.Insts[i].Takeover = mode == 1 || r.chance(0.5)
		}
	}
	s.Lat = Latency{Min: 0, Max: r.pickD(2*ms, h/10)}
	s.Watch = WatchPolicy{DelayMax: r.pickD(0, 20*ms, 300*ms), DupP: 1.0}
	for i := 0; i < n; i++ {
		s.Actions = append(s.Actions, Action{At: time.Duration(10+200*i) * ms, Kind: "start", Inst: s.Insts[i].Name})
	}
	site := []string{"becomeLeaderEntry", "becomeLeaderEntry", "roundBeforeAttempt", "settleAsFollower", "watchAfterLeaderTest"}[(k/3)%5]
	t := 3 * sec
	rounds := 2 + r.IntN(2)
	for j := 0; j < rounds; j++ {
		name := fmt.Sprintf("lo%d", j)
		// the current leader leaves with key deletion; the first follower goroutine to reach
		// the site afterwards is held for a moment
		s.Breaks = append(s.Breaks, BreakSpec{Name: name, Client: "*", Op: "yield:" + site, Nth: 1, Phase: "site"})
		lead := s.Insts[j%n].Name
		s.Actions = append(s.Actions,
			Action{At: t, Kind: "arm", Break: name},
			Action{After: time.Nanosecond, Kind: "stop", Inst: lead, Stop: &StopVariant{DeleteKey: true, Wait: true}},
			Action{After: ms, Kind: "waitbreak", Break: name, D: 3 * sec},
			Action{After: r.pickD(5*ms, 20*ms, 100*ms, h/2), Kind: "release", Break: name},
			Action{After: 2 * sec, Kind: "start", Inst: lead},
		)
		t += 6*sec + 4*h
	}
	s.Duration = 20*h + 4*sec
	s.Sample = sampleFor(h)
	return s
}

// ---------------------------------------------------------------------------
// slowsink: the user-supplied metrics sink is slow. One IncTransitions call is held
// inside the sink while something that ends or changes the state it announces is
// issued (a stop call, a forged record seen by the watcher, the record vanishing); the
// sink then returns. Publications must still be in the order of the state changes and
// the gauge must end up agreeing with IsLeader().
// ---------------------------------------------------------------------------

type ssCell struct {
	to   string // the announced state whose publication is held
	inst string
	nth  int
	race string
}

var ssCells = []ssCell{
	{"LEADER", "i0", 1, "stop"},
	{"LEADER", "i0", 1, "stopctx"},
	{"LEADER", "i0", 1, "forge"},
	{"LEADER", "i0", 1, "outdel"},
	{"LEADER", "i1", 1, "stop"},
	{"LEADER", "i1", 1, "stopctx"},
	{"LEADER", "i1", 1, "forge"},
	{"FOLLOWER", "i1", 1, "outdel"},
	{"FOLLOWER", "i1", 1, "stop"},
	{"FOLLOWER", "i0", 1, "stop"},   // i0's demotion (forged record) held, then stopped
	{"FOLLOWER", "i0", 1, "outdel"}, // ... then the record vanishes: re-acquisition
	{"STOPPED", "i0", 1, "start"},
	{"STOPPED", "i1", 1, "start"},
	{"STOPPED", "i0", 1, "connD"}, // a disconnect notification is handled while the stop call is inside its critical section
	{"STOPPED", "i1", 1, "connD"},
	{"STOPPED", "i0", 1, "connR"},
	{"FOLLOWER", "i0", 1, "connD"},
	{"LEADER", "i0", 1, "connD"},
	{"LEADER", "i1", 1, "connD"},
}

// SlowSinkTotal is the size of the enumeration.
func SlowSinkTotal() int { return len(ssCells) * 3 }

func genSlowSink(r rng, k int) *Spec {
	idx := k % SlowSinkTotal()
	cell := ssCells[idx%len(ssCells)]
	spin := []time.Duration{200 * time.Microsecond, 2 * ms, 10 * ms}[idx/len(ssCells)]
	h := r.pickD(200*ms, 500*ms, 1*sec)
	s := &Spec{TTL: time.Duration(r.pickI(3, 5)) * h, NoPreempt: true, Tags: []string{"slowsink", cell.to, cell.race}}
	s.Lat = Latency{Min: 2 * ms, Max: 10 * ms}
	s.Insts = mkInsts(2, 1, h)
	s.Breaks = []BreakSpec{{Name: "ss", Client: cell.inst, Op: "metric:transition:" + cell.to, Nth: cell.nth, Phase: "sink", Armed: true}}
	// the waitbreak has to be in place before the call is held: a call held inside a library
	// critical section stops the virtual clock as soon as another goroutine wants that lock
	first := cell.to == "LEADER" && cell.inst == "i0"
	s.Actions = append(s.Actions, Action{At: 10 * ms, Kind: "start", Inst: "i0"})
	if !first {
		s.Actions = append(s.Actions, Action{At: 500 * ms, Kind: "start", Inst: "i1"})
	}
	switch {
	case cell.to == "LEADER" && cell.inst == "i1":
		s.Actions = append(s.Actions, Action{At: 3 * sec, Kind: "stop", Inst: "i0", Stop: &StopVariant{DeleteKey: true}})
	case cell.to == "FOLLOWER" && cell.inst == "i0":
		s.Actions = append(s.Actions, Action{At: 3 * sec, Kind: "output", Inst: "g0", Val: `{"id":"intruder","token":"x"}`})
	case cell.to == "STOPPED":
		s.Actions = append(s.Actions, Action{At: 3 * sec, Kind: "stop", Inst: cell.inst, Stop: &StopVariant{Plain: cell.inst == "i0", DeleteKey: true}})
	}
	// (chained: no sample of the instances is taken between the trigger and the hit)
	s.Actions = append(s.Actions, Action{Chain: true, Kind: "waitbreak", Break: "ss", D: 12 * sec})
	// everything from here to the release happens at one virtual instant: the held call
	// may sit inside a library critical section
	switch cell.race {
	case "stop":
		s.Actions = append(s.Actions, Action{Chain: true, Kind: "stop", Inst: cell.inst, Stop: &StopVariant{Plain: true}})
	case "stopctx":
		s.Actions = append(s.Actions, Action{Chain: true, Kind: "stop", Inst: cell.inst, Stop: &StopVariant{DeleteKey: true, Wait: true, Timeout: 2 * sec}})
	case "forge":
		s.Actions = append(s.Actions, Action{Chain: true, Kind: "output", Inst: "g0", Val: `{"id":"intruder","token":"y"}`})
	case "outdel":
		s.Actions = append(s.Actions, Action{Chain: true, Kind: "outdel", Inst: "g0"})
	case "start":
		s.Actions = append(s.Actions, Action{Chain: true, Kind: "start", Inst: cell.inst})
	case "connD", "connR":
		for i := range s.Insts {
			s.Insts[i].Conn = true
			s.Insts[i].Grace = r.pickD(0, 2*h+sec)
		}
		s.Tags = append(s.Tags, "connection")
		if cell.race == "connR" {
			// (a disconnect earlier, so that the reconnect has something to verify)
			s.Actions = append([]Action{{At: 2 * sec, Kind: "conn", Inst: cell.inst, Val: "D"}}, s.Actions...)
		}
		s.Actions = append(s.Actions, Action{Chain: true, Kind: "conn", Inst: cell.inst, Val: cell.race[4:]})
	}
	s.Actions = append(s.Actions,
		Action{Chain: true, Kind: "spin", D: spin},
		Action{Chain: true, Kind: "release", Break: "ss"},
		Action{After: ms, Kind: "waitapi", Inst: cell.inst, D: 7 * sec},
	)
	if first {
		s.Actions = append(s.Actions, Action{After: 500 * ms, Kind: "start", Inst: "i1"})
	}
	s.Duration = 6 * sec
	s.Sample = sampleFor(h)
	return s
}

// ---------------------------------------------------------------------------
// lateack: the acknowledgement of a refresh is late (but inside the heartbeat's own
// time-out). Between the store applying that refresh and the instance consuming its
// answer the record changes hands (forged by the outside party, deleted, expired) and a
// validation is called whose read fails transiently or succeeds; the late answer is
// consumed before, while or after the read is under way.
// ---------------------------------------------------------------------------

// LateAckTotal is the size of the enumeration.
func LateAckTotal() int { return 4 * 4 * 2 * 3 * 2 }

func genLateAck(r rng, k int) *Spec {
	idx := k % LateAckTotal()
	usurp := []string{"forge", "forge-own-id", "delete", "expire"}[idx%4]
	idx /= 4
	errk := []string{"timeout", "noresponders", "connclosed", "io"}[idx%4]
	idx /= 4
	orDemote := idx%2 == 1
	idx /= 2
	rel := []time.Duration{5 * ms, 30 * ms, 120 * ms}[idx%3] // the read hangs for 60 ms
	idx /= 3
	readFails := idx%2 == 0
	h := r.pickD(500*ms, 1*sec, 2*sec)
	s := &Spec{TTL: 3 * h, NoPreempt: true, Tags: []string{"lateack", usurp, errk}}
	s.Lat = Latency{Min: 2 * ms, Max: 10 * ms}
	s.Insts = mkInsts(1+r.IntN(2), 1, h)
	s.Breaks = []BreakSpec{{Name: "la", Client: "i0", Op: "Update", Nth: 2 + r.IntN(3), Phase: "resp", Armed: true}}
	s.Actions = append(s.Actions, Action{At: 10 * ms, Kind: "start", Inst: "i0"})
	if len(s.Insts) > 1 {
		s.Actions = append(s.Actions, Action{At: 300 * ms, Kind: "start", Inst: "i1"})
	}
	s.Actions = append(s.Actions, Action{At: 400 * ms, Kind: "waitbreak", Break: "la", D: 30 * sec})
	switch usurp {
	case "forge":
		s.Actions = append(s.Actions, Action{After: ms, Kind: "output", Inst: "g0", Val: `{"id":"intruder","token":"z"}`})
	case "forge-own-id":
		s.Actions = append(s.Actions, Action{After: ms, Kind: "output", Inst: "g0", Val: `{"id":"i0","token":"not-this-term"}`})
	case "delete":
		s.Actions = append(s.Actions, Action{After: ms, Kind: "outdel", Inst: "g0"})
	case "expire":
		s.Actions = append(s.Actions, Action{After: ms, Kind: "outexpire", Inst: "g0"})
	}
	if readFails {
		s.Actions = append(s.Actions, Action{After: ms, Kind: "rule", Rule: &FaultRule{Client: "i0", Op: "Get", Kind: "hang", Hang: 60 * ms, Err: errk}})
	}
	s.Actions = append(s.Actions,
		Action{After: ms, Kind: "validate", Inst: "i0", Val: "bg", OrDemote: orDemote},
		Action{After: rel, Kind: "release", Break: "la"},
		Action{After: 200 * ms, Kind: "validate", Inst: "i0", Val: "bg", OrDemote: orDemote},
	)
	s.Duration = 3 * h
	s.Sample = sampleFor(h)
	return s
}

// ---------------------------------------------------------------------------
// latesuccess: a refresh is applied by the store, but its (positive) answer takes longer than
// the refresh time-out - it arrives while the NEXT refresh is waiting for its own answer; from
// that refresh on the store says nothing at all. The answer that came too late belongs to an
// attempt that has already been counted as failed: it does not restart the count. H is small
// against the time-out (1 s), so that a fourth time-out overshoots 3 H + 3 time-outs.
// ---------------------------------------------------------------------------

// LateSuccessTotal is the size of the enumeration.
func LateSuccessTotal() int { return 2 * 3 }

func genLateSuccess(r rng, k int) *Spec {
	idx := k % LateSuccessTotal()
	h := []time.Duration{100 * ms, 200 * ms}[idx%2]
	idx /= 2
	late := []time.Duration{1200 * ms, 1500 * ms, 1800 * ms}[idx%3]
	s := &Spec{TTL: 100 * h, NoPreempt: true, Tags: []string{"c03", "err-timeout", "latesuccess"}}
	s.Lat = Latency{Max: r.pickD(0, 2*ms)}
	s.Hang = 5 * sec
	s.Insts = mkInsts(1, 1, h)
	s.Breaks = []BreakSpec{{Name: "ls", Client: "i0", Op: "Update", Nth: 4, Phase: "resp", Armed: true}}
	s.Actions = append(s.Actions,
		Action{At: 10 * ms, Kind: "start", Inst: "i0"},
		Action{At: 20 * ms, Kind: "waitbreak", Break: "ls", D: 30 * sec},
		Action{Chain: true, Kind: "rule", Rule: &FaultRule{Client: "i0", Op: "Update", Kind: "hang", Hang: 5 * sec, Err: "timeout"}},
		Action{After: late, Kind: "release", Break: "ls"},
	)
	s.Duration = 5*h + 10*sec
	s.Sample = sampleFor(h)
	return s
}

// ---------------------------------------------------------------------------
// sinkrace: a heartbeat tick is preempted at one of its in-library sites; meanwhile a
// demotion that leaves the record alone (failed validation read, grace expiry) starts
// on another goroutine and is held inside the (slow) user metrics sink, i.e. in the
// middle of the library's demotion sequence; the tick then continues, and only then
// the sink returns. Zero store latency: everything after the second hold happens at
// one virtual instant (the held demotion owns the election mutex).
// ---------------------------------------------------------------------------

var srSinks = []string{"metric:leaderdur", "metric:transition:FOLLOWER", "metric:isleader:0"}
var srPaths = []string{"ordemote", "valloop", "grace"}

// SinkRaceTotal is the size of the enumeration.
func SinkRaceTotal() int { return len(srSinks) * len(srPaths) * 3 }

func genSinkRace(r rng, k int) *Spec {
	idx := k % SinkRaceTotal()
	sink := srSinks[idx%len(srSinks)]
	idx /= len(srSinks)
	path := srPaths[idx%len(srPaths)]
	idx /= len(srPaths)
	spin := []time.Duration{200 * time.Microsecond, 2 * ms, 10 * ms}[idx%3]
	h := r.pickD(200*ms, 500*ms, 1*sec)
	s := &Spec{TTL: time.Duration(r.pickI(3, 5)) * h, NoPreempt: true, Tags: []string{"sinkrace", sink, path}}
	s.Insts = mkInsts(1+r.IntN(2), 1, h)
	nth := 2 + r.IntN(3)
	s.Breaks = []BreakSpec{
		{Name: "tick", Client: "*", Op: "yield:heartbeatAfterRevLoad", Nth: nth, Phase: "site", Armed: true},
		{Name: "sink", Client: "i0", Op: sink, Nth: 1, Phase: "sink"},
	}
	s.Actions = append(s.Actions, Action{At: 10 * ms, Kind: "start", Inst: "i0"})
	if len(s.Insts) > 1 {
		s.Actions = append(s.Actions, Action{At: h / 2, Kind: "start", Inst: "i1"})
	}
	s.Actions = append(s.Actions, Action{At: h/2 + ms, Kind: "waitbreak", Break: "tick", D: 30 * sec},
		Action{Chain: true, Kind: "arm", Break: "sink"})
	switch path {
	case "ordemote":
		s.Actions = append(s.Actions,
			Action{Chain: true, Kind: "rule", Rule: &FaultRule{Client: "i0", Op: "Get", Kind: "err", Err: r.pickS("timeout", "noresponders", "io")}},
			Action{Chain: true, Kind: "validate", Inst: "i0", Val: "bg", OrDemote: true})
	case "valloop":
		s.Insts[0].ValInterval = h
		s.Actions = append(s.Actions,
			Action{Chain: true, Kind: "rule", Rule: &FaultRule{Client: "i0", Op: "Get", Kind: "err", Err: r.pickS("timeout", "noresponders", "io")}})
	case "grace":
		s.Insts[0].Conn = true
		s.Insts[0].Grace = 2 * h
		if s.Insts[0].Grace < sec {
			s.Insts[0].Grace = sec
		}
		s.Actions = append(s.Actions, Action{Chain: true, Kind: "conn", Inst: "i0", Val: "D"})
	}
	s.Actions = append(s.Actions,
		Action{Chain: true, Kind: "waitbreak", Break: "sink", D: 5 * sec},
		Action{Chain: true, Kind: "release", Break: "tick"},
		Action{Chain: true, Kind: "spin", D: spin},
		Action{Chain: true, Kind: "release", Break: "sink"},
		Action{After: ms, Kind: "waitapi", Inst: "i0", D: 7 * sec},
	)
	s.Duration = 3 * h
	s.Sample = sampleFor(h)
	return s
}

// ---------------------------------------------------------------------------
// priosucc: fault-free successions among instances with priorities 0..3 (0 = the default
// configuration, whose record omits the priority field) and mixed takeover flags: the
// current leader is stopped (gracefully or not), the others succeed it, the stopped
// ones come back. Every term of a leader that has a strictly higher-priority,
// takeover-enabled follower beside it is a promptness obligation.
// ---------------------------------------------------------------------------

// PrioSuccTotal is the size of the enumeration of priority/flag assignments.
func PrioSuccTotal() int { return 64 * 8 }

func genPrioSucc(r rng, k int) *Spec {
	idx := (k * 37) % PrioSuccTotal()
	h := r.pickD(200*ms, 500*ms, 1*sec)
	s := &Spec{TTL: time.Duration(r.pickI(3, 5)) * h, Prompt: true, Tags: []string{"priority", "priosucc"}}
	s.Insts = mkInsts(3, 1, h)
	for i := 0; i < 3; i++ {
		s.Insts[i].Priority = idx % 4
		idx /= 4
	}
	for i := 0; i < 3; i++ {
		s.Insts[i].Takeover = idx%2 == 1 && s.Insts[i].Priority > 0 // (takeover needs a priority > 0)
		idx /= 2
	}
	s.Lat = Latency{Min: 0, Max: h / 20}
	if r.chance(0.3) {
		s.Lat = Latency{}
	}
	s.Watch = WatchPolicy{DelayMax: r.pickD(0, h/10)}
	t := 10 * ms
	for _, p := range r.Perm(3) {
		s.Actions = append(s.Actions, Action{At: t, Kind: "start", Inst: s.Insts[p].Name})
		t += r.pickD(0, h/2, 2*h)
	}
	if k%3 == 2 {
		// a hiccup of the store while the instances start (reads of the takeover-enabled
		// ones fail); everything after it is fault-free again and has to be prompt
		for _, is := range s.Insts {
			if is.Takeover {
				s.Rules = append(s.Rules, FaultRule{Client: is.Name, Op: "Get", To: t + 4*h, Kind: "err", Err: r.pickS("timeout", "noresponders", "io")})
			}
		}
		s.PromptAfter = t + 4*h + s.TTL + h
		s.Tags = append(s.Tags, "early-read-faults")
	}
	t += 8 * h
	if s.PromptAfter > 0 {
		t += s.TTL
	}
	for round := 0; round < 3; round++ {
		var sv StopVariant
		switch r.IntN(3) {
		case 0:
			sv = StopVariant{Plain: true}
		case 1:
			sv = StopVariant{DeleteKey: true, Wait: true, Timeout: 5 * sec}
		default:
			sv = StopVariant{DeleteKey: false, Timeout: 5 * sec}
		}
		s.Actions = append(s.Actions, Action{At: t, Kind: "stopleader", Inst: "g0", Stop: &sv})
		t += 8*h + s.TTL
		s.Actions = append(s.Actions, Action{At: t, Kind: "startstopped", Inst: "g0"})
		t += 8 * h
	}
	s.Duration = 6 * h
	s.Sample = sampleFor(h)
	return s
}

// ---------------------------------------------------------------------------
// healthleak: a (slow) health check of a term is still in flight when the term is ended
// by something other than the health mechanism; it reports unhealthy afterwards. The
// instance is re-elected and the new term begins with threshold-1 unhealthy ticks: the
// stale result must not count towards the new term's threshold.
// ---------------------------------------------------------------------------

var hlEnds = []string{"ordemote", "forge", "restart", "restartctx", "outdel", "takeover"}

// HealthLeakTotal is the size of the enumeration.
func HealthLeakTotal() int { return len(hlEnds) * 4 * 3 }

func genHealthLeak(r rng, k int) *Spec {
	idx := k % HealthLeakTotal()
	end := hlEnds[idx%len(hlEnds)]
	idx /= len(hlEnds)
	m := 1 + idx%4 // threshold 1..4
	idx /= 4
	hold := []time.Duration{time.Nanosecond, 20 * ms, 150 * ms}[idx%3] // (the check's own context lasts 100 ms)
	h := r.pickD(200*ms, 500*ms)
	s := &Spec{TTL: 3 * h, NoPreempt: true, Tags: []string{"health", "healthleak", end}}
	s.Insts = mkInsts(1, 1, h)
	j := 1 + r.IntN(4)
	slow := r.pickS("s", "s", "S")
	if end == "takeover" {
		slow = "S" // slow but healthy: the tick that waited for it goes on towards its refresh
	}
	s.Insts[0].Health = strings.Repeat("h", j) + slow + strings.Repeat("u", m-1) + strings.Repeat("h", 60)
	s.Insts[0].HealthOn = true
	s.Insts[0].MaxFail = m
	s.Lat = Latency{Max: r.pickD(0, 2*ms)}
	s.Breaks = []BreakSpec{{Name: "hc", Client: "i0", Op: "health:" + slow, Nth: 1, Phase: "check", Armed: true}}
	s.Actions = append(s.Actions, Action{At: 10 * ms, Kind: "start", Inst: "i0"},
		Action{At: 20 * ms, Kind: "waitbreak", Break: "hc", D: 30 * sec})
	if end == "takeover" {
		// the term is ended by a real preemption while the check is out; the check stays out
		// until the old leader has seen the preemptor's record and a few of its refreshes; its
		// result - healthy or not - arrives in a term that is over: the tick that waited for it
		// must not go on to refresh anything
		s.NoPreempt = false
		s.Insts = append(s.Insts, InstSpec{Name: "i1", Group: "g0", H: h, Priority: 3, Takeover: true})
		s.Insts[0].Priority = 1
		// (a leader that acquired the key from Start runs no watch: it learns of the preemption
		// from a validation, turns follower, and its watch then follows the preemptor's record)
		s.Actions = append(s.Actions, Action{After: time.Nanosecond, Kind: "start", Inst: "i1"},
			Action{After: h, Kind: "validate", Inst: "i0", Val: "bg", OrDemote: true},
			Action{After: 2*h + 200*ms + hold, Kind: "release", Break: "hc"})
		s.Duration = s.TTL + time.Duration(m+8)*h + 2*sec
		s.Sample = sampleFor(h)
		return s
	}
	switch end {
	case "ordemote":
		s.Actions = append(s.Actions,
			Action{After: time.Nanosecond, Kind: "rule", Rule: &FaultRule{Client: "i0", Op: "Get", ToOrd: 1, Kind: "err", Err: "timeout"}},
			Action{After: time.Nanosecond, Kind: "validate", Inst: "i0", Val: "bg", OrDemote: true})
	case "forge":
		s.Actions = append(s.Actions, Action{After: time.Nanosecond, Kind: "output", Inst: "g0", Val: `{"id":"intruder","token":"x"}`},
			Action{After: 3 * h, Kind: "outdel", Inst: "g0"})
	case "restart":
		s.Actions = append(s.Actions, Action{After: time.Nanosecond, Kind: "restart", Inst: "i0", Stop: &StopVariant{Plain: true}})
	case "restartctx":
		s.Actions = append(s.Actions, Action{After: time.Nanosecond, Kind: "restart", Inst: "i0", Stop: &StopVariant{DeleteKey: true, Wait: true, Timeout: 2 * sec}})
	case "outdel":
		s.Actions = append(s.Actions, Action{After: time.Nanosecond, Kind: "outdel", Inst: "g0"})
	}
	// the held check returns after the term has ended (its result is unhealthy for "s")
	rel := Action{After: hold, Kind: "release", Break: "hc"}
	if end == "forge" {
		// (before the forged record is removed again)
		s.Actions = append(s.Actions[:len(s.Actions)-1], rel, s.Actions[len(s.Actions)-1])
	} else {
		s.Actions = append(s.Actions, rel)
	}
	s.Duration = s.TTL + time.Duration(m+8)*h + 2*sec
	s.Sample = sampleFor(h)
	return s
}

// ---------------------------------------------------------------------------
// holdrace: a scenario of another class, plus one reaction: the library is held at one of
// its calls into user code (any of its log lines through the Logger, a metrics call, a
// health check) - wherever that call sits, inside or outside a critical section - and at
// that very instant a racing event is fired (stop variants, Start, a validation, a forged
// record, deletion, expiry, a connection notification); the other goroutines get real
// time to run into whatever they run into; then the held call returns. No virtual time
// passes between hold and release.
// ---------------------------------------------------------------------------

var hrLogs = []string{
	"leader_demoted", "token_validation_failed", "state_transition", "election_stopped", "reconnect_verification_failed",
	"heartbeat_failed", "priority_takeover_success", "leadership_taken_over", "leadership_lost_via_watcher", "key_deletion_failed",
	"health_check_failed", "connection_disconnected", "acquire_failed_max_retries", "acquire_completed_while_leader_ignored",
	"acquire_completed_after_stop_ignored", "acquire_answer_after_ttl_ignored", "verifying_leadership_after_reconnect",
	"reconnect_verification_success", "priority_takeover_opportunity", "leader_promoted", "leader_changed_periodic_check",
	"leader_changed", "key_deleted", "election_started", "connection_reconnected_before_grace_period", "connection_reconnected",
	"acquire_success", "watch_failed", "demoting_due_to_validation_failure", "demoting_due_to_reconnect_verification_failure",
	"demoting_due_to_heartbeat_failure", "demoting_due_to_health_check_failure", "demoting_due_to_connection_loss", "acquire_failed",
	"watch_started", "watch_event_key_empty", "watch_event_key_deleted", "watch_closed", "token_validation_recovered",
	"priority_takeover_failed", "key_not_found_triggering_reelection", "key_empty_triggering_reelection", "heartbeat_recovered",
	"health_check_recovered", "attempting_acquire_with_retry", "acquire_retry", "shutdown_timeout", "shutdown_cancelled",
}
var hrMetrics = []string{"metric:transition:LEADER", "metric:transition:FOLLOWER", "metric:transition:STOPPED", "metric:leaderdur", "metric:isleader:0", "metric:isleader:1"}
var hrRaces = []string{"stop", "stopdel", "stopnowait", "stopshort", "start", "restart", "ordemote", "validate", "forge", "outdel", "outexpire", "connD", "connR", "connC"}
var hrBases = []string{"multiterm", "connection", "lifecycle", "benign", "priorace", "hostile", "health2"}

func genHoldRace(r rng, k int) *Spec {
	base := hrBases[k%len(hrBases)]
	var s *Spec
	if base == "benign" {
		s = genBenign(r)
	} else {
		s = generators[base](r, k/len(hrBases))
	}
	x := s.Insts[r.IntN(len(s.Insts))]
	op := ""
	switch {
	case r.chance(0.2):
		op = hrMetrics[r.IntN(len(hrMetrics))]
	case x.HealthOn && r.chance(0.15):
		op = "health:" + r.pickS("h", "u")
	case r.chance(0.1):
		op = "log:?new" // a log line the catalogue does not know: introduced by a change
	case r.chance(0.1):
		op = "log:*"
	default:
		op = "log:" + hrLogs[(k/len(hrBases))%len(hrLogs)]
	}
	for _, m := range hrLogs {
		KnownLogs[m] = true
	}
	race := hrRaces[r.IntN(len(hrRaces))]
	if r.chance(0.15) {
		race = "none"
	}
	y := x.Name // the racing event usually concerns the held instance itself
	if len(s.Insts) > 1 && r.chance(0.25) {
		y = s.Insts[r.IntN(len(s.Insts))].Name
	}
	var ra Action
	switch race {
	case "stop":
		ra = Action{Kind: "stop", Inst: y, Stop: &StopVariant{Plain: true}}
	case "stopdel":
		ra = Action{Kind: "stop", Inst: y, Stop: &StopVariant{DeleteKey: true, Wait: true, Timeout: 5 * sec}}
	case "stopnowait":
		ra = Action{Kind: "stop", Inst: y, Stop: &StopVariant{DeleteKey: r.chance(0.5), Timeout: 5 * sec}}
	case "stopshort":
		ra = Action{Kind: "stop", Inst: y, Stop: &StopVariant{DeleteKey: r.chance(0.5), Wait: r.chance(0.5), Timeout: 200 * ms}}
	case "start":
		ra = Action{Kind: "start", Inst: y}
	case "restart":
		ra = Action{Kind: "restart", Inst: y, Stop: &StopVariant{Plain: true}}
	case "ordemote":
		ra = Action{Kind: "validate", Inst: y, Val: "bg", OrDemote: true}
	case "validate":
		ra = Action{Kind: "validate", Inst: y, Val: "bg"}
	case "forge":
		ra = Action{Kind: "output", Inst: x.Group, Val: `{"id":"intruder","token":"h"}`}
	case "outdel":
		ra = Action{Kind: "outdel", Inst: x.Group}
	case "outexpire":
		ra = Action{Kind: "outexpire", Inst: x.Group}
	case "none":
		ra = Action{Kind: "sleep"}
	default:
		ra = Action{Kind: "conn", Inst: y, Val: race[4:]}
	}
	switch race {
	case "stop", "stopdel", "stopnowait", "stopshort", "start", "restart", "none":
		// API use keeps the premises of the base class
	default:
		s.Benign = false
		s.Prompt = false
	}
	s.Breaks = append(s.Breaks, BreakSpec{Name: "hr", Client: x.Name, Op: op, Nth: 1, Phase: hrPhase(op), Armed: true})
	nth := 1 + r.IntN(4)
	if op == "log:*" {
		nth = 1 + r.IntN(80)
	}
	s.Breaks[len(s.Breaks)-1].Nth = nth
	acts := []Action{ra, {Kind: "spin", D: r.pickD(200*time.Microsecond, 2*ms, 10*ms)}}
	nap := time.Duration(0)
	if r.chance(0.4) {
		// a slow sink: the call stays held while virtual time passes (heartbeats tick, records
		// expire, successors are elected); skipped at run time if the call turns out to sit
		// inside the election's critical section
		nap = []time.Duration{x.H * 6 / 10, x.H * 12 / 10, x.H * 5 / 2, s.TTL + x.H}[r.IntN(4)]
		acts = append(acts, Action{Kind: "nap", Inst: x.Name, D: nap})
		s.Benign = false
		s.Prompt = false
	}
	acts = append(acts, Action{Kind: "release", Break: "hr"})
	s.Reactions = append(s.Reactions, Reaction{Break: "hr", Actions: acts})
	s.Tags = append(s.Tags, "holdrace", "base:"+base, op, "race:"+race, fmt.Sprintf("nap:%v", nap))
	return s
}

func hrPhase(op string) string {
	if strings.HasPrefix(op, "health:") {
		return "check"
	}
	return "sink"
}

// ---------------------------------------------------------------------------
// twocause: two demotion causes fire for the same term at the same moment. Cause A is
// brought about by the scenario and held at the log line that announces it (i.e. after
// its "am I leader" test, before it takes the flag down); cause B is fired at that
// instant and runs to completion; then A continues. Exactly one demotion callback.
// ---------------------------------------------------------------------------

var tcA = []string{"heartbeat", "health", "validation", "connection", "reconnect", "watcher", "takeover"}
var tcB = []string{"ordemote", "forge", "stop", "stopctx", "outdel-ordemote", "tick"}

// TwoCauseTotal is the size of the enumeration.
func TwoCauseTotal() int { return len(tcA) * len(tcB) * 3 }

func genTwoCause(r rng, k int) *Spec {
	idx := k % TwoCauseTotal()
	a := tcA[idx%len(tcA)]
	idx /= len(tcA)
	b := tcB[idx%len(tcB)]
	idx /= len(tcB)
	spin := []time.Duration{200 * time.Microsecond, 2 * ms, 10 * ms}[idx%3]
	h := r.pickD(200*ms, 500*ms)
	s := &Spec{TTL: time.Duration(r.pickI(3, 5)) * h, NoPreempt: true, Tags: []string{"twocause", "A:" + a, "B:" + b}}
	s.Lat = Latency{Max: r.pickD(0, 2*ms)}
	s.Insts = mkInsts(1+r.IntN(2), 1, h)
	s.Insts[0].BlockPromote = r.chance(0.5)
	s.Actions = append(s.Actions, Action{At: 10 * ms, Kind: "start", Inst: "i0"})
	if len(s.Insts) > 1 {
		s.Actions = append(s.Actions, Action{At: 300 * ms, Kind: "start", Inst: "i1"})
	}
	t0 := 2*sec + r.dur(0, h)
	msg := ""
	switch a {
	case "heartbeat":
		msg = "demoting_due_to_heartbeat_failure"
		s.Actions = append(s.Actions, Action{At: t0, Kind: "rule", Rule: &FaultRule{Client: "i0", Op: "Update", Kind: "err", Err: r.pickS("timeout", "noresponders", "io")}})
	case "health":
		msg = "demoting_due_to_health_check_failure"
		m := 1 + r.IntN(3)
		n := int(t0/h) + 1
		s.Insts[0].Health = strings.Repeat("h", n) + strings.Repeat("u", m) + strings.Repeat("h", 40)
		s.Insts[0].HealthOn, s.Insts[0].MaxFail = true, m
	case "validation":
		msg = "demoting_due_to_validation_failure"
		s.Insts[0].ValInterval = h
		s.Actions = append(s.Actions, Action{At: t0, Kind: "rule", Rule: &FaultRule{Client: "i0", Op: "Get", ToOrd: 1 << 20, Kind: "err", Err: r.pickS("timeout", "noresponders", "io")}})
	case "connection":
		msg = "demoting_due_to_connection_loss"
		s.Insts[0].Conn, s.Insts[0].Grace = true, sec+2*h
		s.Actions = append(s.Actions, Action{At: t0, Kind: "conn", Inst: "i0", Val: "D"})
	case "reconnect":
		msg = "demoting_due_to_reconnect_verification_failure"
		s.Insts[0].Conn, s.Insts[0].Grace = true, 5*sec
		s.Actions = append(s.Actions, Action{At: t0, Kind: "conn", Inst: "i0", Val: "D"},
			Action{After: 50 * ms, Kind: "rule", Rule: &FaultRule{Client: "i0", Op: "Get", Kind: "err", Err: "timeout"}},
			Action{After: 50 * ms, Kind: "conn", Inst: "i0", Val: "R"})
	case "watcher":
		msg = "leadership_lost_via_watcher"
		s.Actions = append(s.Actions, Action{At: t0, Kind: "output", Inst: "g0", Val: `{"id":"intruder","token":"w"}`})
	case "takeover":
		// a real preemption: i0 (priority 1) follows i2, succeeds it (so that its watch loop is
		// running while it leads), and is then preempted by i1 (priority 2, takeover enabled)
		msg = "leadership_lost_via_watcher"
		s.NoPreempt = false
		s.Insts = mkInsts(3, 1, h)
		s.Insts[0].Priority, s.Insts[1].Priority, s.Insts[2].Priority = 1, 2, 1
		s.Insts[1].Takeover = true
		s.Actions = []Action{{At: 10 * ms, Kind: "start", Inst: "i2"}, {At: 300 * ms, Kind: "start", Inst: "i0"},
			{At: 1 * sec, Kind: "stop", Inst: "i2", Stop: &StopVariant{DeleteKey: true, Wait: true, Timeout: 5 * sec}},
			{At: t0, Kind: "start", Inst: "i1"}}
	}
	s.Breaks = []BreakSpec{{Name: "tc", Client: "i0", Op: "log:" + msg, Nth: 1, Phase: "sink", Armed: true}}
	var rb []Action
	switch b {
	case "ordemote":
		rb = []Action{{Kind: "rule", Rule: &FaultRule{Client: "i0", Op: "Get", Kind: "err", Err: "timeout"}}, {Kind: "validate", Inst: "i0", Val: "bg", OrDemote: true}}
	case "outdel-ordemote":
		rb = []Action{{Kind: "outdel", Inst: "g0"}, {Kind: "validate", Inst: "i0", Val: "bg", OrDemote: true}}
	case "forge":
		rb = []Action{{Kind: "output", Inst: "g0", Val: `{"id":"intruder","token":"b"}`}}
	case "stop":
		rb = []Action{{Kind: "stop", Inst: "i0", Stop: &StopVariant{Plain: true}}}
	case "stopctx":
		rb = []Action{{Kind: "stop", Inst: "i0", Stop: &StopVariant{DeleteKey: r.chance(0.5), Wait: r.chance(0.5), Timeout: 5 * sec}}}
	case "tick":
		// no second cause: the sink is just slow, and the instance's heartbeat ticks meanwhile
		rb = []Action{{Kind: "nap", Inst: "i0", D: h * 13 / 10}}
	}
	rb = append(rb, Action{Kind: "spin", D: spin}, Action{Kind: "release", Break: "tc"})
	s.Reactions = []Reaction{{Break: "tc", Actions: rb}}
	s.Duration = t0 + 8*sec
	s.Sample = sampleFor(h)
	return s
}

// ---------------------------------------------------------------------------
// lateanswer: the record goes away, a follower's acquisition round begins, and the store
// applies the round's first Create but answers it later than the TTL: by then the record
// written by that Create has expired again. The round goes on (it has used one of its
// four attempts and waits its backoff before the next).
// ---------------------------------------------------------------------------

// LateAnswerTotal is the size of the enumeration.
func LateAnswerTotal() int { return 3 * 2 * 2 * 3 }

func genLateAnswer(r rng, k int) *Spec {
	idx := k % LateAnswerTotal()
	how := []string{"graceful", "outdel", "outexpire"}[idx%3]
	idx /= 3
	h := []time.Duration{200 * ms, 500 * ms}[idx%2]
	idx /= 2
	ratio := []int{3, 5}[idx%2]
	idx /= 2
	delta := []time.Duration{ms, 30 * ms, h}[idx%3]
	s := &Spec{TTL: time.Duration(ratio) * h, NoPreempt: true, Tags: []string{"lateanswer", how}}
	s.Lat = Latency{Min: ms, Max: r.pickD(2*ms, 10*ms)}
	s.Insts = mkInsts(2+r.IntN(2), 1, h)
	s.Breaks = []BreakSpec{{Name: "la", Client: "i1", Op: "Create", Nth: 1, Phase: "resp"}}
	s.Actions = append(s.Actions, Action{At: 10 * ms, Kind: "start", Inst: "i0"}, Action{At: 300 * ms, Kind: "start", Inst: "i1"})
	if len(s.Insts) > 2 {
		// a third candidate that comes late: it finds whatever the round left behind
		s.Actions = append(s.Actions, Action{At: 3*sec + s.TTL + 2*h, Kind: "start", Inst: "i2"})
	}
	s.Actions = append(s.Actions, Action{At: 3 * sec, Kind: "arm", Break: "la"})
	switch how {
	case "graceful":
		s.Actions = append(s.Actions, Action{Chain: true, Kind: "stop", Inst: "i0", Stop: &StopVariant{DeleteKey: true, Wait: true, Timeout: 5 * sec}})
	case "outdel":
		s.Actions = append(s.Actions, Action{Chain: true, Kind: "outdel", Inst: "g0"}, Action{Chain: true, Kind: "stop", Inst: "i0", Stop: &StopVariant{Plain: true}})
	case "outexpire":
		s.Actions = append(s.Actions, Action{Chain: true, Kind: "outexpire", Inst: "g0"}, Action{Chain: true, Kind: "stop", Inst: "i0", Stop: &StopVariant{Plain: true}})
	}
	s.Actions = append(s.Actions,
		Action{After: ms, Kind: "waitbreak", Break: "la", D: 10 * sec},
		Action{After: s.TTL + delta, Kind: "release", Break: "la"},
	)
	s.Duration = 12 * h
	s.Sample = sampleFor(h)
	return s
}

// ---------------------------------------------------------------------------
// lateregister: the application registers its callbacks late - before Start (control),
// in the middle of the first term, or between two terms. Whatever context a promotion
// callback is handed, it lives exactly as long as the term it was handed for.
// ---------------------------------------------------------------------------

// LateRegisterTotal is the size of the enumeration.
func LateRegisterTotal() int { return 3 * 4 * 2 }

func genLateRegister(r rng, k int) *Spec {
	idx := k % LateRegisterTotal()
	when := []string{"before-start", "mid-term", "between-terms"}[idx%3]
	idx /= 3
	end := []string{"forge", "ordemote", "health", "outdel"}[idx%4]
	idx /= 4
	two := idx%2 == 1
	h := r.pickD(200*ms, 500*ms)
	s := &Spec{TTL: 3 * h, NoPreempt: true, Tags: []string{"lateregister", when, end}}
	s.Lat = Latency{Max: r.pickD(0, 2*ms)}
	n := 1
	if two {
		n = 2
	}
	s.Insts = mkInsts(n, 1, h)
	s.Insts[0].LateCallbacks = true
	s.Insts[0].BlockPromote = true
	for i := range s.Insts {
		s.Insts[i].BlockPromote = true
	}
	t1 := 2 * sec // the first term of i0 ends here
	if when == "before-start" {
		s.Actions = append(s.Actions, Action{At: 5 * ms, Kind: "register", Inst: "i0"})
	}
	s.Actions = append(s.Actions, Action{At: 10 * ms, Kind: "start", Inst: "i0"})
	if two {
		s.Actions = append(s.Actions, Action{At: 300 * ms, Kind: "start", Inst: "i1"})
	}
	if when == "mid-term" {
		s.Actions = append(s.Actions, Action{At: 1 * sec, Kind: "register", Inst: "i0"})
	}
	switch end {
	case "forge":
		s.Actions = append(s.Actions, Action{At: t1, Kind: "output", Inst: "g0", Val: `{"id":"intruder","token":"r"}`},
			Action{At: t1 + 2*h, Kind: "outdel", Inst: "g0"})
	case "ordemote":
		s.Actions = append(s.Actions, Action{At: t1, Kind: "rule", Rule: &FaultRule{Client: "i0", Op: "Get", To: t1 + 50*ms, Kind: "err", Err: "timeout"}},
			Action{After: ms, Kind: "validate", Inst: "i0", Val: "bg", OrDemote: true})
	case "health":
		m := 1 + r.IntN(2)
		s.Insts[0].HealthOn, s.Insts[0].MaxFail = true, m
		s.Insts[0].Health = strings.Repeat("h", int(t1/h)) + strings.Repeat("u", m) + strings.Repeat("h", 80)
	case "outdel":
		s.Actions = append(s.Actions, Action{At: t1, Kind: "outdel", Inst: "g0"})
	}
	if when == "between-terms" {
		s.Actions = append(s.Actions, Action{At: t1 + h/2, Kind: "register", Inst: "i0"})
	}
	if two {
		// whoever leads afterwards goes away, so that i0 gets (another) term with callbacks registered
		s.Actions = append(s.Actions, Action{At: t1 + s.TTL + 6*h, Kind: "stop", Inst: "i1", Stop: &StopVariant{DeleteKey: true, Wait: true, Timeout: 5 * sec}})
	}
	s.Duration = s.TTL + 8*h
	s.Sample = sampleFor(h)
	return s
}

// ---------------------------------------------------------------------------
// longprobe: a validation's read is slow - it stays in flight while the record goes away,
// the instance is demoted by its heartbeat and wins the vacant key again under a new
// token (or somebody else does); only then the read is served. Whatever the verdict, a
// false one leaves no leader behind.
// ---------------------------------------------------------------------------

// LongProbeTotal is the size of the enumeration.
func LongProbeTotal() int { return 4 * 2 * 2 * 2 }

func genLongProbe(r rng, k int) *Spec {
	idx := k % LongProbeTotal()
	gone := []string{"outdel", "outexpire", "forge-then-del", "forge"}[idx%4]
	idx /= 4
	phase := []string{"req", "resp"}[idx%2]
	idx /= 2
	orDemote := idx%2 == 0
	idx /= 2
	two := idx%2 == 1
	h := r.pickD(200*ms, 500*ms)
	s := &Spec{TTL: 3 * h, NoPreempt: true, Tags: []string{"longprobe", gone, phase}}
	s.Lat = Latency{Min: ms, Max: r.pickD(2*ms, 10*ms)}
	n := 1
	if two {
		n = 2
	}
	s.Insts = mkInsts(n, 1, h)
	s.Breaks = []BreakSpec{{Name: "lp", Client: "i0", Op: "Get", Nth: 1, Phase: phase}}
	s.Actions = append(s.Actions, Action{At: 10 * ms, Kind: "start", Inst: "i0"})
	if two {
		s.Actions = append(s.Actions, Action{At: 300 * ms, Kind: "start", Inst: "i1"})
	}
	if gone == "forge" {
		// the record is replaced BEFORE the validation is called; the instance has not noticed
		// yet (its watch event is on its way) and notices while the validation's read is out
		s.Watch = WatchPolicy{DelayMax: 150 * ms}
		s.Actions = append(s.Actions, Action{At: 2*sec - ms, Kind: "output", Inst: "g0", Val: `{"id":"intruder","token":"p"}`})
	}
	s.Actions = append(s.Actions,
		Action{At: 2 * sec, Kind: "arm", Break: "lp"},
		Action{Chain: true, Kind: "validate", Inst: "i0", Val: "bg", OrDemote: orDemote},
		Action{After: ms, Kind: "waitbreak", Break: "lp", D: 5 * sec},
	)
	switch gone {
	case "outdel":
		s.Actions = append(s.Actions, Action{After: ms, Kind: "outdel", Inst: "g0"})
	case "outexpire":
		s.Actions = append(s.Actions, Action{After: ms, Kind: "outexpire", Inst: "g0"})
	case "forge":
	default:
		s.Actions = append(s.Actions, Action{After: ms, Kind: "output", Inst: "g0", Val: `{"id":"intruder","token":"p"}`},
			Action{After: h, Kind: "outdel", Inst: "g0"})
	}
	wait := 2*h + 1200*ms // heartbeat failure (<= H), periodic check (500 ms), jitter and retries: the key has a new owner by then
	if gone == "forge" {
		wait = r.pickD(200*ms, 300*ms, h+100*ms)
	}
	s.Actions = append(s.Actions,
		Action{After: wait, Kind: "release", Break: "lp"},
		Action{After: ms, Kind: "waitapi", Inst: "i0", D: 5 * sec},
	)
	s.Duration = 6 * h
	s.Sample = sampleFor(h)
	return s
}

// ---------------------------------------------------------------------------
// refuseddelete: the store refuses (or loses the answer to, or sits on) the Delete of a
// graceful shutdown - after the ownership read went well. The term is over whatever becomes of
// the key: OnDemote is owed, and the instance started again is promoted for a new term after it.
// ---------------------------------------------------------------------------

// RefusedDeleteTotal is the size of the enumeration.
func RefusedDeleteTotal() int { return 4 * 2 * 2 }

func genRefusedDelete(r rng, k int) *Spec {
	idx := k % RefusedDeleteTotal()
	fault := idx % 4
	idx /= 4
	wait := idx%2 == 0
	idx /= 2
	h := []time.Duration{200 * ms, 1 * sec}[idx%2]
	s := &Spec{TTL: 3 * h, NoPreempt: true, Tags: []string{"lifecycle", "refuseddelete"}}
	s.Lat = Latency{Max: r.pickD(0, 3*ms)}
	s.Hang = 2 * sec
	s.Insts = mkInsts(1, 1, h)
	switch fault {
	case 0:
		s.Rules = append(s.Rules, FaultRule{Client: "i0", Op: "Delete", Kind: "err", Err: "timeout"})
	case 1:
		s.Rules = append(s.Rules, FaultRule{Client: "i0", Op: "Delete", Kind: "err", Err: "noresponders"})
	case 2:
		s.Rules = append(s.Rules, FaultRule{Client: "i0", Op: "Delete", Kind: "acklost", Hang: 300 * ms})
	default:
		s.Rules = append(s.Rules, FaultRule{Client: "i0", Op: "Delete", Kind: "hang", Hang: 300 * ms})
	}
	s.Actions = append(s.Actions, Action{At: 10 * ms, Kind: "start", Inst: "i0"},
		Action{At: 2*sec + h/3, Kind: "stop", Inst: "i0", Stop: &StopVariant{DeleteKey: true, Wait: wait, Timeout: 5 * sec}},
		Action{After: ms, Kind: "waitapi", Inst: "i0", D: 8 * sec},
		Action{After: 100 * ms, Kind: "start", Inst: "i0"})
	s.Duration = 2*sec + 3*s.TTL + 3*sec
	s.Sample = sampleFor(h)
	return s
}

// ---------------------------------------------------------------------------
// stalestamp: a short outage while leading (disconnect, reconnect 50 ms later: verified, kept),
// and more than a grace period later another reconnect notification with no disconnect before
// it (a duplicate from the client library, a flap the disconnect handler of which was lost) - or
// first a disconnect that is answered at once. The record is intact throughout: whatever the
// instance remembers of the first outage, the leader keeps leadership.
// ---------------------------------------------------------------------------

// StaleStampTotal is the size of the enumeration.
func StaleStampTotal() int { return 3 * 2 * 2 }

func genStaleStamp(r rng, k int) *Spec {
	idx := k % StaleStampTotal()
	gk := idx % 3
	idx /= 3
	h := []time.Duration{200 * ms, 1 * sec}[idx%2]
	idx /= 2
	second := []string{"R", "DR"}[idx%2]
	grace := []time.Duration{0, 2 * h, 10 * h}[gk]
	G := grace
	if G == 0 {
		G = 3 * h
		if G < 5*sec {
			G = 5 * sec
		}
	}
	s := &Spec{TTL: 5 * h, NoPreempt: true, Tags: []string{"connection", "stalestamp", second}}
	s.Lat = Latency{Max: r.pickD(0, 3*ms)}
	s.Insts = mkInsts(1, 1, h)
	s.Insts[0].Conn = true
	s.Insts[0].Grace = grace
	t := 1*sec + h/3
	s.Actions = append(s.Actions,
		Action{At: 5 * ms, Kind: "start", Inst: "i0"},
		Action{At: t, Kind: "conn", Inst: "i0", Val: "D"},
		Action{At: t + 50*ms, Kind: "conn", Inst: "i0", Val: "R"},
	)
	t2 := t + G + 1*sec
	if second == "DR" {
		s.Actions = append(s.Actions, Action{At: t2 - 20*ms, Kind: "conn", Inst: "i0", Val: "D"})
	}
	s.Actions = append(s.Actions, Action{At: t2, Kind: "conn", Inst: "i0", Val: "R"})
	s.Duration = t2 + 3*sec + 2*h
	s.Sample = sampleFor(h)
	return s
}

// ---------------------------------------------------------------------------
// giveupprobe: the application gives up on a validation whose read is parked at the store: it
// cancels the call's context (a plain cancellable context, or a request context that also
// carries a deadline far away) 20 / 150 ms into the call; the store answers - with the
// instance's own, valid record - 200 ms after that. A call that is still there to answer
// "true" ignored the cancellation.
// ---------------------------------------------------------------------------

// GiveUpProbeTotal is the size of the enumeration.
func GiveUpProbeTotal() int { return 2 * 2 * 2 * 2 }

func genGiveUpProbe(r rng, k int) *Spec {
	idx := k % GiveUpProbeTotal()
	kind := []string{"cancelmid", "deadlinecancel"}[idx%2]
	idx /= 2
	orDemote := idx%2 == 1
	idx /= 2
	phase := []string{"req", "resp"}[idx%2]
	idx /= 2
	after := []time.Duration{20 * ms, 150 * ms}[idx%2]
	h := r.pickD(500*ms, 1*sec)
	s := &Spec{TTL: 5 * h, NoPreempt: true, Tags: []string{"giveupprobe", kind, phase}}
	s.Lat = Latency{Min: ms, Max: r.pickD(2*ms, 10*ms)}
	s.Insts = mkInsts(1, 1, h)
	s.Breaks = []BreakSpec{{Name: "gp", Client: "i0", Op: "Get", Nth: 1, Phase: phase}}
	s.Actions = append(s.Actions,
		Action{At: 10 * ms, Kind: "start", Inst: "i0"},
		Action{At: 2*sec + h/3, Kind: "arm", Break: "gp"},
		Action{Chain: true, Kind: "validate", Inst: "i0", Val: kind, D: after, OrDemote: orDemote},
		Action{After: ms, Kind: "waitbreak", Break: "gp", D: 5 * sec},
		Action{After: after + 200*ms, Kind: "release", Break: "gp"},
		Action{After: ms, Kind: "waitapi", Inst: "i0", D: 5 * sec},
	)
	s.Duration = 2*sec + 6*h
	s.Sample = sampleFor(h)
	return s
}

// ---------------------------------------------------------------------------
// ownprefix: somebody replaces the leader's record by bytes that BEGIN like (or contain, or
// wrap) the leader's own well-formed record - own id, current token - but are malformed or
// foreign as a whole; the leader validates at once (before its watch or heartbeat notices),
// or the replacement lands while the validation's read is on its way to the store.
// ---------------------------------------------------------------------------

var ownPrefixProds = []int{23, 23, 23, 24, 25, 26, 27, 28, 9, 10, 5, 6}

// OwnPrefixTotal is the size of the enumeration.
func OwnPrefixTotal() int { return len(ownPrefixProds) * 2 * 2 }

func genOwnPrefix(r rng, k int) *Spec {
	idx := k % OwnPrefixTotal()
	prod := ownPrefixProds[idx%len(ownPrefixProds)]
	idx /= len(ownPrefixProds)
	orDemote := idx%2 == 0
	idx /= 2
	mid := idx%2 == 1
	two := (k/OwnPrefixTotal())%2 == 1
	h := r.pickD(200*ms, 500*ms)
	s := &Spec{TTL: 3 * h, NoPreempt: true, Tags: []string{"ownprefix", fmt.Sprint("p", prod)}}
	s.Lat = Latency{Min: ms, Max: r.pickD(2*ms, 10*ms)}
	s.Watch = WatchPolicy{DelayMax: 150 * ms}
	n := 1
	if two {
		n = 2
	}
	s.Insts = mkInsts(n, 1, h)
	s.Actions = append(s.Actions, Action{At: 10 * ms, Kind: "start", Inst: "i0"})
	if two {
		s.Actions = append(s.Actions, Action{At: 300 * ms, Kind: "start", Inst: "i1"})
	}
	// just after a refresh (the ticks fall at 10 ms + j*h + a few ms of latency), so that the
	// heartbeat does not notice before the validation has read
	t := 10*ms + 8*h + 40*ms
	val := HostilePayload(r, prod, "i0", "stranger", "@OWNTOKEN@")
	if mid {
		s.Breaks = []BreakSpec{{Name: "op", Client: "i0", Op: "Get", Nth: 1, Phase: "req"}}
		s.Actions = append(s.Actions,
			Action{At: t, Kind: "arm", Break: "op"},
			Action{Chain: true, Kind: "validate", Inst: "i0", Val: "bg", OrDemote: orDemote},
			Action{After: ms, Kind: "waitbreak", Break: "op", D: 5 * sec},
			Action{After: ms, Kind: "output", Inst: "g0", Val: val},
			Action{After: ms, Kind: "release", Break: "op"},
		)
	} else {
		s.Actions = append(s.Actions,
			Action{At: t, Kind: "output", Inst: "g0", Val: val},
			Action{Chain: true, Kind: "validate", Inst: "i0", Val: "bg", OrDemote: orDemote},
		)
	}
	s.Actions = append(s.Actions, Action{After: ms, Kind: "waitapi", Inst: "i0", D: 5 * sec})
	s.Duration = t + 6*h
	s.Sample = sampleFor(h)
	return s
}

// ---------------------------------------------------------------------------
// twoinflight: a follower is stopped while TWO of its store calls are in flight - the
// periodic check's read (served while the key was absent) and an acquisition round's
// Create (applied successfully). The answers arrive after the stop call has taken
// effect, in either order. (The round is first held at its own log line, so that the
// periodic check's tick falls before its Create - no alignment of timers needed.)
// ---------------------------------------------------------------------------

// TwoInFlightTotal is the size of the enumeration.
func TwoInFlightTotal() int { return 4 * 2 * 3 }

func genTwoInFlight(r rng, k int) *Spec {
	idx := k % TwoInFlightTotal()
	sv := []StopVariant{{Plain: true}, {DeleteKey: true, Wait: true, Timeout: 5 * sec}, {DeleteKey: false, Timeout: 200 * ms}, {DeleteKey: true, Timeout: 200 * ms}}[idx%4]
	idx /= 4
	getFirst := idx%2 == 0
	idx /= 2
	gap := []time.Duration{ms, 20 * ms, 300 * ms}[idx%3]
	h := r.pickD(500*ms, 1*sec, 2*sec)
	s := &Spec{TTL: 3 * h, NoPreempt: true, Tags: []string{"lifecycle", "twoinflight"}}
	s.Lat = Latency{Min: ms, Max: r.pickD(2*ms, 10*ms)}
	s.Insts = mkInsts(3, 1, h)
	s.Breaks = []BreakSpec{
		{Name: "ra", Client: "i1", Op: "log:attempting_acquire_with_retry", Nth: 1, Phase: "sink"},
		{Name: "pg", Client: "i1", Op: "Get", Nth: 1, Phase: "resp"},
		{Name: "cr", Client: "i1", Op: "Create", Nth: 1, Phase: "resp"},
	}
	s.Actions = append(s.Actions, Action{At: 10 * ms, Kind: "start", Inst: "i0"}, Action{At: 300 * ms, Kind: "start", Inst: "i1"},
		Action{At: 3 * sec, Kind: "arm", Break: "ra"}, Action{Chain: true, Kind: "arm", Break: "pg"}, Action{Chain: true, Kind: "arm", Break: "cr"},
		Action{Chain: true, Kind: "stop", Inst: "i0", Stop: &StopVariant{DeleteKey: true, Wait: true, Timeout: 5 * sec}},
		Action{After: ms, Kind: "waitbreak", Break: "ra", D: 3 * sec},
		Action{After: ms, Kind: "waitbreak", Break: "pg", D: 3 * sec},
		Action{After: ms, Kind: "release", Break: "ra"},
		Action{After: ms, Kind: "waitbreak", Break: "cr", D: 3 * sec},
		Action{After: ms, Kind: "stop", Inst: "i1", Stop: &sv},
	)
	first, second := "pg", "cr"
	if !getFirst {
		first, second = "cr", "pg"
	}
	s.Actions = append(s.Actions,
		Action{After: gap, Kind: "release", Break: first},
		Action{After: gap, Kind: "release", Break: second},
		Action{After: ms, Kind: "waitapi", Inst: "i1", D: 8 * sec},
		// a successor that starts when the record left behind has expired
		Action{After: s.TTL + h, Kind: "start", Inst: "i2"},
	)
	// (with the short gaps every answer still arrives within H/2 of its request: the
	// fault-free premise of C02/C07 holds)
	s.Benign = gap <= 20*ms
	s.Duration = 6 * h
	s.Sample = sampleFor(h)
	return s
}

// ---------------------------------------------------------------------------
// outage: the leader hears nothing from its watch (every event lost). Right after one of
// its heartbeats its record is gone (expired / deleted) and a successor has the key; a
// reconnect notification starts the verification, whose second read is slow - slow
// enough for the old leader's next heartbeat to tick in between.
// ---------------------------------------------------------------------------

// OutageTotal is the size of the enumeration.
func OutageTotal() int { return 2 * 3 * 2 * 2 }

func genOutage(r rng, k int) *Spec {
	idx := k % OutageTotal()
	gone := []string{"outexpire", "outdel"}[idx%2]
	idx /= 2
	held := []string{"second-read-req", "second-read-resp", "first-read-resp"}[idx%3]
	idx /= 3
	withD := idx%2 == 1
	idx /= 2
	prio := idx%2 == 1
	h := r.pickD(500*ms, 1*sec)
	s := &Spec{TTL: 3 * h, NoPreempt: !prio, Tags: []string{"connection", "outage", gone, held}}
	s.Watch = WatchPolicy{DropP: 1}
	s.Insts = mkInsts(2, 1, h)
	s.Insts[0].Conn = true
	s.Insts[0].Grace = 10 * h
	if prio {
		s.Insts[0].Priority, s.Insts[1].Priority = 2, 1
		s.Insts[0].Takeover = true
	}
	n := 2 + r.IntN(3)
	t := 10*ms + time.Duration(n)*h + 20*ms // just after the leader's n-th heartbeat (zero latency)
	nth, phase := 2, "req"
	switch held {
	case "second-read-resp":
		phase = "resp"
	case "first-read-resp":
		nth, phase = 1, "resp"
	}
	s.Breaks = []BreakSpec{{Name: "vr", Client: "i0", Op: "Get", Nth: nth, Phase: phase}}
	s.Actions = append(s.Actions, Action{At: 10 * ms, Kind: "start", Inst: "i0"})
	if withD {
		s.Actions = append(s.Actions, Action{At: t - 10*ms, Kind: "conn", Inst: "i0", Val: "D"})
	}
	s.Actions = append(s.Actions,
		Action{At: t, Kind: gone, Inst: "g0"},
		Action{Chain: true, Kind: "start", Inst: "i1"},
		Action{After: 5 * ms, Kind: "arm", Break: "vr"},
		Action{Chain: true, Kind: "conn", Inst: "i0", Val: "R"},
		Action{After: ms, Kind: "waitbreak", Break: "vr", D: 2 * sec},
		Action{After: h, Kind: "release", Break: "vr"},
	)
	s.Duration = 6 * h
	s.Sample = sampleFor(h)
	return s
}

// ---------------------------------------------------------------------------
// slowdemote: the application's OnDemote callback is slow (0.3 s, 1 s, or longer than TTL
// plus a re-election). The leader is stopped with every stop variant - some give up
// while the callback still runs - and started again during or after the callback.
// Fault-free: the premises of C02/C07 hold.
// ---------------------------------------------------------------------------

// SlowDemoteTotal is the size of the enumeration.
func SlowDemoteTotal() int { return 3 * 7 * 3 * 2 }

func genSlowDemote(r rng, k int) *Spec {
	idx := k % SlowDemoteTotal()
	h := r.pickD(200*ms, 500*ms)
	ttl := 3 * h
	dd := []time.Duration{300 * ms, 1 * sec, ttl + 3*h}[idx%3]
	idx /= 3
	svs := []StopVariant{
		{DeleteKey: true, Wait: true, Timeout: dd + 5*sec},
		{DeleteKey: true, Wait: true, Timeout: 200 * ms},
		{DeleteKey: false, Wait: true, Timeout: 200 * ms},
		{DeleteKey: true, Wait: true, CtxKind: "cancelmid", CtxD: 100 * ms, Timeout: dd + 5*sec},
		{DeleteKey: true, Wait: false, Timeout: 5 * sec},
		{DeleteKey: false, Wait: true, CtxKind: "deadline", CtxD: 150 * ms},
		{Plain: true},
	}
	sv := svs[idx%len(svs)]
	idx /= len(svs)
	restart := []string{"during", "after", "none"}[idx%3]
	idx /= 3
	two := idx%2 == 1
	s := &Spec{TTL: ttl, Benign: true, NoPreempt: true, Tags: []string{"lifecycle", "slowdemote", restart}}
	s.Lat = Latency{Max: r.pickD(0, 2*ms)}
	s.Insts = mkInsts(2, 1, h)
	s.Insts[0].DemoteDelay = dd
	s.Insts[0].BlockPromote = r.chance(0.5)
	s.Actions = append(s.Actions, Action{At: 10 * ms, Kind: "start", Inst: "i0"})
	if two {
		s.Actions = append(s.Actions, Action{At: 300 * ms, Kind: "start", Inst: "i1"})
	}
	t := 2 * sec
	s.Actions = append(s.Actions, Action{At: t, Kind: "stop", Inst: "i0", Stop: &sv})
	switch restart {
	case "during":
		s.Actions = append(s.Actions, Action{At: t + r.pickD(20*ms, dd/3), Kind: "start", Inst: "i0"})
	case "after":
		s.Actions = append(s.Actions, Action{At: t + dd + 5*sec + 500*ms, Kind: "start", Inst: "i0"})
	}
	if !two {
		// a second instance arrives late: it finds whatever the first one left behind
		s.Actions = append(s.Actions, Action{At: t + dd + ttl + 8*sec, Kind: "start", Inst: "i1"})
	}
	s.Duration = dd + ttl + 4*h + 2*sec
	if !two {
		s.Duration = 2*ttl + 2*sec
	}
	s.Sample = sampleFor(h)
	return s
}

// ---------------------------------------------------------------------------
// hungrestart: one store call of a follower's watch loop (its periodic read, or the Watch
// call itself) hangs for longer than a stop call waits; the follower is stopped, started
// again (the hung call is still out), the call finally returns, the store is fine from
// then on - and later the record becomes vacant. The restarted follower is a healthy
// candidate like any other.
// ---------------------------------------------------------------------------

// HungRestartTotal is the size of the enumeration.
func HungRestartTotal() int { return 2 * 3 * 3 }

func genHungRestart(r rng, k int) *Spec {
	idx := k % HungRestartTotal()
	op := []string{"Get", "Watch"}[idx%2]
	idx /= 2
	sv := []StopVariant{{Plain: true}, {DeleteKey: false, Timeout: 300 * ms}, {DeleteKey: true, Wait: true, CtxKind: "deadline", CtxD: 500 * ms}}[idx%3]
	idx /= 3
	how := []string{"graceful", "outdel", "outexpire"}[idx%3]
	h := r.pickD(200*ms, 500*ms)
	s := &Spec{TTL: 3 * h, NoPreempt: true, Tags: []string{"hungrestart", op, how}}
	s.Lat = Latency{Max: r.pickD(0, 2*ms)}
	s.Insts = mkInsts(2, 1, h)
	t := 2 * sec
	hang := 8 * sec
	s.Actions = append(s.Actions, Action{At: 10 * ms, Kind: "start", Inst: "i0"}, Action{At: 300 * ms, Kind: "start", Inst: "i1"})
	if op == "Get" {
		s.Rules = append(s.Rules, FaultRule{Client: "i1", Op: "Get", From: t, To: t + 600*ms, Kind: "hang", Hang: hang, Err: "timeout"})
	} else {
		// the watch is closed from the store side; the call that re-establishes it hangs
		s.Rules = append(s.Rules, FaultRule{Client: "i1", Op: "Watch", From: t, To: t + 2*sec, Kind: "hang", Hang: hang, Err: "timeout"})
		s.Actions = append(s.Actions, Action{At: t + 10*ms, Kind: "closewatch", Inst: "i1"})
	}
	s.Actions = append(s.Actions,
		Action{At: t + 700*ms, Kind: "stop", Inst: "i1", Stop: &sv},
		Action{After: ms, Kind: "waitapi", Inst: "i1", D: 7 * sec},
		Action{After: 100 * ms, Kind: "start", Inst: "i1"},
	)
	tv := t + hang + 2*sec // the hung call is back, the store answers, the restarted follower has settled
	switch how {
	case "graceful":
		s.Actions = append(s.Actions, Action{At: tv, Kind: "stop", Inst: "i0", Stop: &StopVariant{DeleteKey: true, Wait: true, Timeout: 5 * sec}})
	case "outdel":
		s.Actions = append(s.Actions, Action{At: tv, Kind: "stop", Inst: "i0", Stop: &StopVariant{Plain: true}}, Action{After: ms, Kind: "outdel", Inst: "g0"})
	default:
		s.Actions = append(s.Actions, Action{At: tv, Kind: "stop", Inst: "i0", Stop: &StopVariant{Plain: true}}, Action{After: ms, Kind: "outexpire", Inst: "g0"})
	}
	s.Duration = 4 * sec
	s.Sample = sampleFor(h)
	return s
}

// ---------------------------------------------------------------------------
// healthconn: an unhealthy streak of a leader with connection monitoring, with reconnect
// (and disconnect/reconnect) notifications arriving between the unhealthy ticks. Only a
// healthy report or a new term restarts the count.
// ---------------------------------------------------------------------------

// HealthConnTotal is the size of the enumeration.
func HealthConnTotal() int { return 4 * 3 * 2 }

func genHealthConn(r rng, k int) *Spec {
	idx := k % HealthConnTotal()
	m := 1 + idx%4
	idx /= 4
	word := []string{"R", "DR", "RR"}[idx%3]
	idx /= 3
	every := idx%2 == 0 // a notification between every pair of unhealthy ticks, or only once
	h := r.pickD(500*ms, 1*sec)
	s := &Spec{TTL: 5 * h, NoPreempt: true, Tags: []string{"health", "connection", "healthconn"}}
	s.Lat = Latency{Max: r.pickD(0, 2*ms)}
	s.Insts = mkInsts(1, 1, h)
	j := 2 + r.IntN(3)
	s.Insts[0].Health = strings.Repeat("h", j) + strings.Repeat("u", m+4) + strings.Repeat("h", 60)
	s.Insts[0].HealthOn, s.Insts[0].MaxFail = true, m
	s.Insts[0].Conn = true
	s.Insts[0].Grace = 20 * h
	s.Actions = append(s.Actions, Action{At: 10 * ms, Kind: "start", Inst: "i0"})
	// ticks at 10ms + n*H (zero-ish latency); the first unhealthy tick is tick j+1
	for q := 0; q < m+3; q++ {
		if !every && q != 0 {
			break
		}
		at := 10*ms + time.Duration(j+1+q)*h + h/4
		s.Actions = append(s.Actions, Action{At: at, Kind: "conn", Inst: "i0", Val: word})
	}
	s.Duration = time.Duration(m+8) * h
	s.Sample = sampleFor(h)
	return s
}

// ---------------------------------------------------------------------------
// dupacquire: two acquisitions of the same instance both succeed: the store applies the
// first Create but holds its answer, the record written by it is deleted from outside,
// the instance's next round creates the record again and a term begins - and then the
// answer to the first Create arrives (within the TTL).
// ---------------------------------------------------------------------------

// DupAcquireTotal is the size of the enumeration.
func DupAcquireTotal() int { return 3 * 3 * 2 * 2 * 2 }

func genDupAcquire(r rng, k int) *Spec {
	idx := k % DupAcquireTotal()
	gone := []string{"outdel", "outexpire", "graceful-late"}[idx%3]
	idx /= 3
	after := []time.Duration{ms, 50 * ms, 400 * ms}[idx%3] // how long after the second term began the first answer arrives
	idx /= 3
	block := idx%2 == 0
	idx /= 2
	// the second term has come AND GONE (it ran for longer than a TTL, then a validation with an
	// already cancelled context ended it) when the first answer arrives: the instance is a
	// follower again, and the record in the store is the second term's
	endSecond := idx%2 == 1
	idx /= 2
	// the first Create is held BEFORE the store applies it: the second round wins the vacant
	// key and its term runs; that term's record then vanishes, and only now the first Create
	// reaches the store - it is accepted (the key is vacant again) and answered while the
	// instance still leads the other term
	lateApply := idx%2 == 1
	h := r.pickD(500*ms, 1*sec)
	s := &Spec{TTL: 5 * h, NoPreempt: true, Tags: []string{"dupacquire", gone}}
	if lateApply {
		s.Tags = append(s.Tags, "late-apply")
		s.Lat = Latency{Min: ms, Max: r.pickD(2*ms, 5*ms)}
		s.Insts = mkInsts(2, 1, h)
		s.Insts[1].BlockPromote = block
		s.Breaks = []BreakSpec{{Name: "c1", Client: "i1", Op: "Create", Nth: 1, Phase: "req"}}
		s.Actions = append(s.Actions, Action{At: 10 * ms, Kind: "start", Inst: "i0"}, Action{At: 300 * ms, Kind: "start", Inst: "i1"},
			Action{At: 3 * sec, Kind: "arm", Break: "c1"},
			Action{Chain: true, Kind: "stop", Inst: "i0", Stop: &StopVariant{DeleteKey: true, Wait: true, Timeout: 5 * sec}},
			Action{After: ms, Kind: "waitbreak", Break: "c1", D: 3 * sec},
			// the periodic check (500 ms) finds the key vacant, a second round creates the record
			Action{After: 900*ms + after, Kind: r.pickS("outdel", "outexpire"), Inst: "g0"},
			Action{After: time.Nanosecond, Kind: "release", Break: "c1"})
		if endSecond {
			s.Actions = append(s.Actions, Action{After: 2 * h, Kind: "validate", Inst: "i1", Val: "bg", OrDemote: true})
		}
		s.Duration = 8 * h
		s.Sample = sampleFor(h)
		return s
	}
	s.Lat = Latency{Min: ms, Max: r.pickD(2*ms, 5*ms)}
	s.Insts = mkInsts(2, 1, h)
	s.Insts[1].BlockPromote = block
	s.Breaks = []BreakSpec{{Name: "c1", Client: "i1", Op: "Create", Nth: 1, Phase: "resp"}}
	s.Actions = append(s.Actions, Action{At: 10 * ms, Kind: "start", Inst: "i0"}, Action{At: 300 * ms, Kind: "start", Inst: "i1"},
		Action{At: 3 * sec, Kind: "arm", Break: "c1"})
	if gone == "graceful-late" {
		// the previous leader's shutdown: its Delete lands after the successor's Create
		s.Actions = append(s.Actions, Action{Chain: true, Kind: "stop", Inst: "i0", Stop: &StopVariant{Plain: true}}, Action{Chain: true, Kind: "outexpire", Inst: "g0"})
	} else {
		s.Actions = append(s.Actions, Action{Chain: true, Kind: "stop", Inst: "i0", Stop: &StopVariant{DeleteKey: true, Wait: true, Timeout: 5 * sec}})
	}
	s.Actions = append(s.Actions, Action{After: ms, Kind: "waitbreak", Break: "c1", D: 3 * sec})
	switch gone {
	case "outexpire":
		s.Actions = append(s.Actions, Action{After: ms, Kind: "outexpire", Inst: "g0"})
	default:
		s.Actions = append(s.Actions, Action{After: ms, Kind: "outdel", Inst: "g0"})
	}
	// the watcher sees the deletion, a new round creates the record again (jitter <= 100 ms, or the
	// periodic check 500 ms later); then the first answer is let through
	if endSecond {
		s.Tags = append(s.Tags, "second-term-over")
		s.Actions = append(s.Actions,
			Action{After: 700*ms + s.TTL + h, Kind: "validate", Inst: "i1", Val: "cancelled", OrDemote: true},
			Action{After: after, Kind: "release", Break: "c1"})
	} else {
		s.Actions = append(s.Actions, Action{After: 700*ms + after, Kind: "release", Break: "c1"})
	}
	s.Duration = 6 * h
	s.Sample = sampleFor(h)
	return s
}

// ---------------------------------------------------------------------------
// sharedround: no faults, every store operation below H/2 (H = 2 s). The leader leaves; the
// follower's first Create takes 650 ms to reach the store, so the periodic check starts a second
// acquisition round next to the first. Should the instance ever report a SECOND successful
// acquisition for that one vacancy (two rounds credited with one write), that report is slow
// (the log sink takes a while); meanwhile the instance is shut down gracefully, a peer takes the
// key, and the instance is started again. Whatever the delayed round does when its log call
// returns, it belongs to a run that is over: at most one instance reports leadership.
// (On a tree where every round makes its own Create the second report never comes and the
// scenario is an ordinary hand-over.)
// ---------------------------------------------------------------------------

// SharedRoundTotal is the size of the enumeration.
func SharedRoundTotal() int { return 2 * 2 }

func genSharedRound(r rng, k int) *Spec {
	idx := k % SharedRoundTotal()
	held := []time.Duration{650 * ms, 900 * ms}[idx%2]
	idx /= 2
	point := []string{"log:acquire_success", "metric:acquire:success"}[idx%2]
	h := 2 * sec
	s := &Spec{TTL: 3 * h, Benign: true, NoPreempt: true, Tags: []string{"lifecycle", "sharedround"}}
	s.Lat = Latency{Min: ms, Max: r.pickD(2*ms, 10*ms)}
	s.Insts = mkInsts(3, 1, h)
	s.Breaks = []BreakSpec{
		{Name: "c1", Client: "i1", Op: "Create", Nth: 1, Phase: "req"},
		{Name: "as", Client: "i1", Op: point, Nth: 2, Phase: "sink", Armed: true},
	}
	s.Reactions = []Reaction{{Break: "as", Actions: []Action{
		{Kind: "nap", D: 300 * ms},
		{Kind: "start", Inst: "i2"},
		{Kind: "nap", D: 300 * ms},
		{Kind: "stop", Inst: "i1", Stop: &StopVariant{DeleteKey: true, Wait: true, Timeout: 5 * sec}},
		{Kind: "nap", D: 10 * ms},
		{Kind: "waitapi", Inst: "i1", D: 8 * sec},
		{Kind: "nap", D: 900 * ms}, // i2: watch event or periodic check, jitter, Create
		{Kind: "start", Inst: "i1"},
		{Kind: "nap", D: 300 * ms},
		{Kind: "release", Break: "as"},
	}}}
	s.Actions = append(s.Actions, Action{At: 10 * ms, Kind: "start", Inst: "i0"}, Action{At: 300 * ms, Kind: "start", Inst: "i1"},
		Action{At: 3 * sec, Kind: "arm", Break: "c1"},
		Action{Chain: true, Kind: "stop", Inst: "i0", Stop: &StopVariant{DeleteKey: true, Wait: true, Timeout: 5 * sec}},
		Action{After: ms, Kind: "waitbreak", Break: "c1", D: 3 * sec},
		Action{After: held, Kind: "release", Break: "c1"},
		Action{At: 3*sec + 12*sec, Kind: "release", Break: "as"})
	s.Duration = 3*sec + 16*sec
	s.Sample = sampleFor(h)
	return s
}

// ---------------------------------------------------------------------------
// doublestop: a leader is stopped gracefully (DeleteKey); its Delete takes a while
// (well under H/2). Meanwhile the same election is started again - it finds its own old
// record and settles as a follower - and is stopped gracefully a second time. Other
// instances stand by. Fault-free, latencies below H/2: the premises of C02/C07 hold.
// ---------------------------------------------------------------------------

// DoubleStopTotal is the size of the enumeration.
func DoubleStopTotal() int { return 3 * 3 * 2 }

func genDoubleStop(r rng, k int) *Spec {
	idx := k % DoubleStopTotal()
	phase := []string{"req", "req", "resp"}[idx%3]
	heldFor := idx % 3 // how long the first Delete is held: 0.1 H, 0.25 H, 0.4 H
	idx /= 3
	second := []StopVariant{{DeleteKey: true, Wait: true, Timeout: 5 * sec}, {DeleteKey: true, Timeout: 5 * sec}, {Plain: true}}[idx%3]
	idx /= 3
	three := idx%2 == 1
	h := r.pickD(2*sec, 3*sec)
	s := &Spec{TTL: 3 * h, Benign: true, NoPreempt: true, Tags: []string{"lifecycle", "doublestop"}}
	s.Lat = Latency{Min: ms, Max: r.pickD(2*ms, 10*ms)}
	n := 2
	if three {
		n = 3
	}
	s.Insts = mkInsts(n, 1, h)
	hold := []time.Duration{h / 10, h / 4, h * 4 / 10}[heldFor]
	s.Breaks = []BreakSpec{{Name: "d1", Client: "i0", Op: "Delete", Nth: 1, Phase: phase, Armed: true}}
	s.Actions = append(s.Actions, Action{At: 10 * ms, Kind: "start", Inst: "i0"}, Action{At: 300 * ms, Kind: "start", Inst: "i1"})
	if three {
		s.Actions = append(s.Actions, Action{At: 600 * ms, Kind: "start", Inst: "i2"})
	}
	t := 2*h + 100*ms
	s.Actions = append(s.Actions,
		Action{At: t, Kind: "stop", Inst: "i0", Stop: &StopVariant{DeleteKey: true, Wait: false, Timeout: 10 * sec}},
		Action{After: ms, Kind: "waitbreak", Break: "d1", D: 3 * sec},
		Action{After: ms, Kind: "start", Inst: "i0"},
		Action{After: 30 * ms, Kind: "stop", Inst: "i0", Stop: &second},
		Action{After: hold, Kind: "release", Break: "d1"},
		Action{After: ms, Kind: "waitapi", Inst: "i0", D: 8 * sec},
	)
	s.Duration = 3 * h
	s.Sample = sampleFor(h)
	return s
}

// ---------------------------------------------------------------------------
// chaintakeover: a chain of legitimate preemptions - mid (priority 2) takes the record
// over from low (priority 1) and is held for a preemption-sized moment between its store
// call and becomeLeader; high (priority 3) takes the record over from mid meanwhile; mid's
// watcher sees high's record; then mid goes on. Fault-free.
// ---------------------------------------------------------------------------

// ChainTakeoverTotal is the size of the enumeration.
func ChainTakeoverTotal() int { return 3 * 2 * 2 * 2 }

func genChainTakeover(r rng, k int) *Spec {
	idx := k % ChainTakeoverTotal()
	hold := []time.Duration{50 * ms, 200 * ms, 600 * ms}[idx%3]
	idx /= 3
	site := []string{"becomeLeaderEntry", "becomeLeaderEntry"}[idx%2]
	midFollowerFirst := idx%2 == 1
	idx /= 2
	highTakeover := idx%2 == 0
	idx /= 2
	// where mid is held: between its takeover write and becomeLeader, or already inside the
	// first store call of its attempt (the Create that finds the key taken)
	holdCreate := idx%2 == 1
	h := r.pickD(500*ms, 1*sec)
	s := &Spec{TTL: 5 * h, Tags: []string{"priority", "chaintakeover"}}
	s.Lat = Latency{Min: ms, Max: r.pickD(2*ms, 5*ms)}
	s.Insts = mkInsts(3, 1, h)
	s.Insts[0].Priority = 1
	s.Insts[1].Priority, s.Insts[1].Takeover = 2, true
	s.Insts[2].Priority, s.Insts[2].Takeover = 3, highTakeover
	s.Breaks = []BreakSpec{{Name: "ct", Client: "*", Op: "yield:" + site, Nth: 1, Phase: "site"}, {Name: "ct2", Client: "*", Op: "yield:" + site, Nth: 1, Phase: "site"}}
	s.Actions = append(s.Actions, Action{At: 10 * ms, Kind: "start", Inst: "i0"})
	t := 2 * sec
	if midFollowerFirst {
		// mid's first attempt (from Start) fails on a read hiccup: it settles as a follower, its
		// watch loop runs, and the takeover is then started by the watcher - so that its watch
		// loop is there to tell it about high's record while it is held
		s.Rules = append(s.Rules, FaultRule{Client: "i1", Op: "Get", FromOrd: 1, ToOrd: 1, Kind: "err", Err: "timeout"})
		s.Tags = append(s.Tags, "mid-via-watcher")
	}
	if holdCreate {
		// mid's Create number 1 (from Start) or number 2 (the watcher's attempt) is held after the
		// store has refused it; high preempts low meanwhile and mid hears of it; then mid's
		// attempt goes on with whatever it decided before
		nth := 1
		if midFollowerFirst {
			nth = 2
		}
		s.Breaks = []BreakSpec{{Name: "cc", Client: "i1", Op: "Create", Nth: nth, Phase: "resp", Armed: true}}
		s.Actions = append(s.Actions,
			Action{At: t, Kind: "start", Inst: "i1"},
			Action{After: ms, Kind: "waitbreak", Break: "cc", D: 3 * sec},
			Action{After: ms, Kind: "start", Inst: "i2"},
			Action{After: 100*ms + hold, Kind: "release", Break: "cc"},
		)
		s.Tags = append(s.Tags, "hold-create")
		s.Duration = 8 * h
		s.Sample = sampleFor(h)
		return s
	}
	s.Actions = append(s.Actions,
		Action{At: t, Kind: "arm", Break: "ct"},
		Action{Chain: true, Kind: "start", Inst: "i1"},
		Action{After: ms, Kind: "waitbreak", Break: "ct", D: 3 * sec},
		Action{Chain: true, Kind: "arm", Break: "ct2"},
		Action{After: ms, Kind: "start", Inst: "i2"},
		// high, too, is held for a moment between its store call and becomeLeader: mid goes on
		// first (its term begins first, so its heartbeat ticks first), high a little later
		Action{After: ms, Kind: "waitbreak", Break: "ct2", D: 3 * sec},
		Action{After: hold, Kind: "release", Break: "ct"},
		Action{After: r.pickD(20*ms, 100*ms), Kind: "release", Break: "ct2"},
	)
	s.Duration = 8 * h
	s.Sample = sampleFor(h)
	return s
}

// ---------------------------------------------------------------------------
// fastbeat: fault-free runs at the fast end of the valid timing configurations - heartbeat
// intervals of 10-75 ms with TTL ratios from the minimum (3) upwards, i.e. leases of 30 ms
// to 750 ms. Nothing in the library may be paced by a constant that ignores the configured
// interval (a floor on the tick period, a fixed margin, a fixed jitter) in a way that lets
// the lease lapse.
// ---------------------------------------------------------------------------

func genFastBeat(r rng, k int) *Spec {
	return genBeat(r, k, []time.Duration{10 * ms, 20 * ms, 33 * ms, 50 * ms, 75 * ms}, "fastbeat")
}

// slowbeat: the same at the slow end - heartbeat intervals of 5-60 s (leases of 15 s to 10 min):
// nothing may be capped by a constant that ignores the configured interval either.
func genSlowBeat(r rng, k int) *Spec {
	return genBeat(r, k, []time.Duration{5 * sec, 10 * sec, 20 * sec, 30 * sec, 60 * sec}, "slowbeat")
}

func genBeat(r rng, k int, hs []time.Duration, tag string) *Spec {
	h := hs[k%5]
	ratio := []int{3, 3, 4, 5, 10}[(k/5)%5]
	n := 1 + r.IntN(3)
	s := &Spec{Benign: true, NoPreempt: true, TTL: time.Duration(ratio) * h, Tags: []string{tag}}
	s.Insts = mkInsts(n, 1, h)
	if k%3 == 2 {
		// instance ids are free text: ids that need escaping in JSON, ids that differ only in
		// letter case or in surrounding blanks, an id that looks like a record
		names := [][]string{{`node "a"`, `node 'a'`, `node a`}, {"Lead-1", "lead-1", "LEAD-1"}, {`a\b`, `a/b`, `a\\b`}, {"zürich-1", "zurich-1", "zu\u0308rich-1"}, {" x", "x", "x "}, {`{"id":"i9","token":"t"}`, "i9", `"i9"`}, {"esc\x1b[1m", "nul\x00", "del\x7f"}}[(k/3)%7]
		for i := range s.Insts {
			s.Insts[i].Name = names[i]
		}
		s.Tags = append(s.Tags, "odd-ids")
	}
	for i := range s.Insts {
		s.Insts[i].ValInterval = r.pickD(0, 0, h, 2*h)
		s.Insts[i].BlockPromote = r.chance(0.5)
	}
	switch r.IntN(3) {
	case 0:
		s.Lat = Latency{}
	case 1:
		s.Lat = Latency{Min: 0, Max: h / 8}
	default:
		s.Lat = Latency{Min: h / 8, Max: h / 5}
	}
	s.Watch = WatchPolicy{DelayMax: r.pickD(0, h/2, 50*ms), DropP: r.pickF(0, 0, 0.3)}
	T := 3 * sec
	if 30*h > T {
		T = 30 * h
	}
	for i := 0; i < n; i++ {
		s.Actions = append(s.Actions, Action{At: r.dur(0, 500*ms), Kind: "start", Inst: s.Insts[i].Name})
	}
	m := r.IntN(4)
	for j := 0; j < m; j++ {
		a := Action{At: r.dur(500*ms, T), Inst: s.Insts[r.IntN(n)].Name}
		switch r.IntN(4) {
		case 0:
			a.Kind, a.Stop = "stop", randStop(r)
		case 1:
			a.Kind, a.Stop = "restart", randStop(r)
		case 2:
			a.Kind = "start"
		default:
			a.Kind, a.Stop = "stop", &StopVariant{DeleteKey: true, Wait: r.chance(0.5)}
		}
		s.Actions = append(s.Actions, a)
	}
	if r.chance(0.5) {
		// preemption-sized delays at the in-library windows (they do not grow with the interval:
		// a goroutine descheduled for seconds would outlast Stop's own 5 s wait)
		s.YieldP, s.YieldMax = 0.3, h/8
		if s.YieldMax > 250*ms {
			s.YieldMax = 250 * ms
		}
	}
	s.Duration = 2 * sec
	if 12*h > s.Duration {
		s.Duration = 12 * h
	}
	s.Sample = sampleFor(h)
	if h >= 5*sec {
		s.Sample = h / 4
	}
	return s
}

// ---------------------------------------------------------------------------
// latepromote: the goroutine that delivers a term's OnPromote is scheduled very late (parked
// at its entry): meanwhile the term ends by a demotion and the same instance wins the key
// again - a new term is running when the old term's OnPromote is finally delivered. The
// context it is handed belongs to the old term: it is already done.
// ---------------------------------------------------------------------------

// LatePromoteTotal is the size of the enumeration.
func LatePromoteTotal() int { return 2 * 2 * 2 }

func genLatePromote(r rng, k int) *Spec {
	idx := k % LatePromoteTotal()
	end := []string{"forge", "ordemote"}[idx%2]
	idx /= 2
	h := []time.Duration{200 * ms, 500 * ms}[idx%2]
	idx /= 2
	two := idx%2 == 1
	s := &Spec{TTL: 3 * h, NoPreempt: true, Tags: []string{"latepromote", end}}
	s.Lat = Latency{Max: r.pickD(0, 2*ms)}
	n := 1
	if two {
		n = 2
	}
	s.Insts = mkInsts(n, 1, h)
	s.Insts[0].BlockPromote = true
	s.Breaks = []BreakSpec{{Name: "pg", Client: "*", Op: "yield:promoteGoroutineEntry", Nth: 1, Phase: "site", Armed: true}}
	s.Actions = append(s.Actions, Action{At: 10 * ms, Kind: "start", Inst: "i0"},
		Action{After: ms, Kind: "waitbreak", Break: "pg", D: 3 * sec})
	switch end {
	case "forge":
		s.Actions = append(s.Actions, Action{After: 2 * h, Kind: "output", Inst: "g0", Val: `{"id":"intruder","token":"x"}`},
			Action{After: 2 * h, Kind: "outdel", Inst: "g0"})
	default:
		s.Actions = append(s.Actions,
			Action{After: 2 * h, Kind: "rule", Rule: &FaultRule{Client: "i0", Op: "Get", ToOrd: 1, Kind: "err", Err: "timeout"}},
			Action{After: time.Nanosecond, Kind: "validate", Inst: "i0", Val: "bg", OrDemote: true},
			Action{After: h, Kind: "outdel", Inst: "g0"})
	}
	if two {
		// a second instance joins only after the first has had time to win the key again
		s.Actions = append(s.Actions, Action{After: 1200 * ms, Kind: "start", Inst: "i1"})
	}
	s.Actions = append(s.Actions, Action{After: 1500 * ms, Kind: "release", Break: "pg"})
	s.Duration = 6 * h
	s.Sample = sampleFor(h)
	return s
}

// ---------------------------------------------------------------------------
// negprio: an incumbent with a NEGATIVE priority (valid: priorities are plain integers, and a
// negative one is written into the record) and takeover disabled; a challenger with takeover
// disabled (priority 0, positive, equal, lower) never replaces its record - 0 and "disabled"
// are not the same thing as "outranks a negative number" - and a takeover-enabled one with a
// positive priority does so within 3 H.
// ---------------------------------------------------------------------------

// NegPrioTotal is the size of the enumeration.
func NegPrioTotal() int { return 2 * 6 * 2 }

func genNegPrio(r rng, k int) *Spec {
	idx := k % NegPrioTotal()
	inc := []int{-1, -5}[idx%2]
	idx /= 2
	ch := []struct {
		p int
		t bool
	}{{0, false}, {7, false}, {inc, false}, {inc - 2, false}, {7, true}, {1, true}}[idx%6]
	idx /= 6
	h := []time.Duration{200 * ms, 500 * ms}[idx%2]
	s := &Spec{TTL: 3 * h, Prompt: true, Tags: []string{"priority", "negprio"}}
	s.Lat = Latency{Min: 0, Max: h / 20}
	s.Watch = WatchPolicy{DelayMax: r.pickD(0, h/10)}
	s.Insts = mkInsts(2, 1, h)
	s.Insts[0].Priority = inc
	s.Insts[1].Priority, s.Insts[1].Takeover = ch.p, ch.t
	s.Actions = append(s.Actions, Action{At: 10 * ms, Kind: "start", Inst: "i0"},
		Action{At: 10*ms + 2*h + r.dur(0, h), Kind: "start", Inst: "i1"})
	s.Duration = 12 * h
	s.Sample = sampleFor(h)
	return s
}

// ---------------------------------------------------------------------------
// bigprio: priorities above 2^53 (derived from a nanosecond timestamp, a build number shifted
// left...), where neighbouring integers are no longer neighbouring float64 values: equal
// priorities never preempt each other, a priority lower by 50 never preempts, a priority higher
// by 1 does - within 3 H.
// ---------------------------------------------------------------------------

// BigPrioTotal is the size of the enumeration.
func BigPrioTotal() int { return 4 * 2 }

func genBigPrio(r rng, k int) *Spec {
	idx := k % BigPrioTotal()
	pair := [][2]int{
		{1<<53 + 1, 1<<53 + 1},                     // equal: never
		{1790000000000000100, 1790000000000000050}, // challenger lower by 50: never
		{1<<53 + 3, 1<<53 + 4},                     // challenger higher by 1: within 3 H
		{1790000000000000001, 1790000000000000002}, // challenger higher by 1: within 3 H
	}[idx%4]
	idx /= 4
	h := []time.Duration{200 * ms, 500 * ms}[idx%2]
	s := &Spec{TTL: 3 * h, Prompt: true, Tags: []string{"priority", "bigprio"}}
	s.Lat = Latency{Min: 0, Max: h / 20}
	s.Watch = WatchPolicy{DelayMax: r.pickD(0, h/10)}
	s.Insts = mkInsts(2, 1, h)
	s.Insts[0].Priority, s.Insts[0].Takeover = pair[0], true
	s.Insts[1].Priority, s.Insts[1].Takeover = pair[1], true
	s.Actions = append(s.Actions, Action{At: 10 * ms, Kind: "start", Inst: "i0"},
		Action{At: 10*ms + 2*h + r.dur(0, h), Kind: "start", Inst: "i1"})
	s.Duration = 12 * h
	s.Sample = sampleFor(h)
	return s
}

// ---------------------------------------------------------------------------
// acklosttakeover: a takeover-enabled candidate's Create is applied, but its answer is lost:
// the call fails with a time-out some time later. Meanwhile the record it never knew about
// has expired (or was deleted) and a lower-priority instance holds the key. The attempt goes
// on to its takeover path and preempts that instance - with a token of its own, not with the
// one the lost Create had already put into the record.
// ---------------------------------------------------------------------------

// AckLostTakeoverTotal is the size of the enumeration.
func AckLostTakeoverTotal() int { return 3 * 2 * 2 }

func genAckLostTakeover(r rng, k int) *Spec {
	idx := k % AckLostTakeoverTotal()
	gone := []string{"expire", "outdel", "outexpire"}[idx%3]
	idx /= 3
	h := []time.Duration{200 * ms, 500 * ms}[idx%2]
	idx /= 2
	errk := []string{"timeout", "noresponders"}[idx%2]
	s := &Spec{TTL: 3 * h, Tags: []string{"priority", "acklosttakeover", gone}}
	s.Lat = Latency{Min: ms, Max: r.pickD(2*ms, 5*ms)}
	s.Insts = mkInsts(2, 1, h)
	s.Insts[0].Priority = 1
	s.Insts[1].Priority, s.Insts[1].Takeover = 3, true
	// i1's first Create: applied, the answer lost; the call returns its error only after the
	// record has gone and i0 has had time to take the vacant key
	hang := s.TTL + 1500*ms
	if gone != "expire" {
		hang = 2 * sec
	}
	s.Rules = append(s.Rules, FaultRule{Client: "i1", Op: "Create", FromOrd: 1, ToOrd: 1, Kind: "acklost", Err: errk, Hang: hang})
	s.Actions = append(s.Actions, Action{At: 10 * ms, Kind: "start", Inst: "i1"}, Action{At: 60 * ms, Kind: "start", Inst: "i0"})
	switch gone {
	case "outdel":
		s.Actions = append(s.Actions, Action{At: 300 * ms, Kind: "outdel", Inst: "g0"})
	case "outexpire":
		s.Actions = append(s.Actions, Action{At: 300 * ms, Kind: "outexpire", Inst: "g0"})
	}
	s.Duration = hang + 8*h
	s.Sample = sampleFor(h)
	return s
}

// ---------------------------------------------------------------------------
// promoterace: a promotion is held in one of the calls into user code it makes while it
// publishes the term (metrics sink, logger); at that instant the record is replaced from
// outside and the application validates with ValidateTokenOrDemote - or its validation's
// read fails: a demotion races the promotion. Whichever way the library orders the two, the
// term that was published is ended properly: flag down, OnDemote after OnPromote, promotion
// context cancelled, gauge 0.
// ---------------------------------------------------------------------------

var prHolds = []string{"metric:transition:LEADER", "metric:isleader:1", "log:state_transition", "log:leader_promoted"}

// PromoteRaceTotal is the size of the enumeration.
func PromoteRaceTotal() int { return len(prHolds) * 2 * 2 }

func genPromoteRace(r rng, k int) *Spec {
	idx := k % PromoteRaceTotal()
	hold := prHolds[idx%len(prHolds)]
	idx /= len(prHolds)
	forge := idx%2 == 0
	idx /= 2
	h := []time.Duration{200 * ms, 500 * ms}[idx%2]
	s := &Spec{TTL: 3 * h, NoPreempt: true, Tags: []string{"promoterace", hold}}
	s.Lat = Latency{Max: r.pickD(0, 2*ms)}
	s.Insts = mkInsts(1, 1, h)
	s.Insts[0].BlockPromote = true
	s.Breaks = []BreakSpec{{Name: "pr", Client: "i0", Op: hold, Nth: 1, Phase: "sink", Armed: true}}
	var acts []Action
	if forge {
		acts = append(acts, Action{Kind: "output", Inst: "g0", Val: `{"id":"intruder","token":"x"}`})
	} else {
		acts = append(acts, Action{Kind: "rule", Rule: &FaultRule{Client: "i0", Op: "Get", ToOrd: 1, Kind: "err", Err: "timeout"}})
	}
	acts = append(acts,
		Action{Kind: "validate", Inst: "i0", Val: "bg", OrDemote: true},
		Action{Kind: "spin", D: 2 * ms},
		Action{Kind: "release", Break: "pr"})
	s.Reactions = []Reaction{{Break: "pr", Actions: acts}}
	s.Actions = append(s.Actions, Action{At: 10 * ms, Kind: "start", Inst: "i0"})
	if forge {
		s.Actions = append(s.Actions, Action{At: 10*ms + 4*h, Kind: "outdel", Inst: "g0"})
	}
	s.Duration = 10 * h
	s.Sample = sampleFor(h)
	return s
}

// ---------------------------------------------------------------------------
// bigthreshold: MaxConsecutiveFailures far above the usual 1-4 (33, 40, 64, 100 - "all
// thresholds 1..N"): a streak of threshold-1 unhealthy ticks, one healthy tick, then a streak
// that reaches the threshold. Whatever the count is kept in, it has to reach it.
// ---------------------------------------------------------------------------

// BigThresholdTotal is the size of the enumeration.
func BigThresholdTotal() int { return 4 * 2 }

func genBigThreshold(r rng, k int) *Spec {
	idx := k % BigThresholdTotal()
	m := []int{33, 40, 64, 100}[idx%4]
	idx /= 4
	j := 1 + 2*(idx%2)
	h := 100 * ms
	s := &Spec{TTL: time.Duration(m+20) * h, NoPreempt: true, Tags: []string{"health", "bigthreshold"}}
	s.Lat = Latency{Max: r.pickD(0, 2*ms)}
	s.Insts = mkInsts(1, 1, h)
	s.Insts[0].Health = strings.Repeat("h", j) + strings.Repeat("u", m-1) + "h" + strings.Repeat("u", m+2) + strings.Repeat("h", 20)
	s.Insts[0].HealthOn, s.Insts[0].MaxFail = true, m
	s.Actions = append(s.Actions, Action{At: 10 * ms, Kind: "start", Inst: "i0"})
	s.Duration = time.Duration(j+2*m+12) * h
	s.Sample = 250 * ms
	return s
}

// ---------------------------------------------------------------------------
// stalecheck: a follower's fallback read of the record (after its watch was closed from the
// store's side) is served while the old leader still holds the key, and its answer is on its
// way; the follower's acquisition round, started by the re-established watch, has its next
// Create on its way too. The leader shuts down gracefully (DeleteKey); the Create is applied
// and the follower leads; only now the answer of the read arrives. It describes a record of
// the past. Everything stays below H/2; no faults: the new leader is not disturbed.
// ---------------------------------------------------------------------------

// StaleCheckTotal is the size of the enumeration.
func StaleCheckTotal() int { return 2 * 3 }

func genStaleCheck(r rng, k int) *Spec {
	idx := k % StaleCheckTotal()
	three := idx%2 == 1
	idx /= 2
	late := []time.Duration{ms, 50 * ms, 300 * ms}[idx%3] // how long after the promotion the stale answer arrives
	h := r.pickD(2*sec, 3*sec)
	s := &Spec{TTL: 3 * h, Benign: true, NoPreempt: true, Tags: []string{"stalecheck"}}
	s.Lat = Latency{Min: ms, Max: r.pickD(2*ms, 5*ms)}
	n := 2
	if three {
		n = 3
	}
	s.Insts = mkInsts(n, 1, h)
	s.Breaks = []BreakSpec{
		{Name: "rd", Client: "i1", Op: "Get", Nth: 1, Phase: "resp"},
		{Name: "cr", Client: "i1", Op: "Create", Nth: 1, Phase: "req"},
	}
	s.Actions = append(s.Actions, Action{At: 10 * ms, Kind: "start", Inst: "i0"}, Action{At: 300 * ms, Kind: "start", Inst: "i1"})
	if three {
		s.Actions = append(s.Actions, Action{At: 600 * ms, Kind: "start", Inst: "i2"})
	}
	s.Actions = append(s.Actions,
		Action{At: 3 * sec, Kind: "arm", Break: "rd"},
		Action{Chain: true, Kind: "arm", Break: "cr"},
		Action{Chain: true, Kind: "closewatch", Inst: "i1"},
		Action{After: ms, Kind: "waitbreak", Break: "rd", D: 2 * sec},
		Action{After: ms, Kind: "waitbreak", Break: "cr", D: 2 * sec},
		Action{After: ms, Kind: "stop", Inst: "i0", Stop: &StopVariant{DeleteKey: true, Wait: true, Timeout: 5 * sec}},
		Action{After: 20 * ms, Kind: "release", Break: "cr"},
		Action{After: 20*ms + late, Kind: "release", Break: "rd"},
	)
	s.Duration = 6 * h
	s.Sample = sampleFor(h)
	return s
}

// ---------------------------------------------------------------------------
// closewatchstop: the store closes a follower's (or a watching leader's) watch; a stop call
// follows 1 / 15 / 60 / 200 ms later. Whatever the library has scheduled in reaction to the
// lost watch (a fallback read, a new watch, a timer), nothing of it reaches the store after
// the stop call has returned.
// ---------------------------------------------------------------------------

// CloseWatchStopTotal is the size of the enumeration.
func CloseWatchStopTotal() int { return 4 * 4 }

func genCloseWatchStop(r rng, k int) *Spec {
	idx := k % CloseWatchStopTotal()
	gap := []time.Duration{ms, 15 * ms, 60 * ms, 200 * ms}[idx%4]
	idx /= 4
	sv := []StopVariant{{Plain: true}, {DeleteKey: true, Wait: true, Timeout: 5 * sec}, {DeleteKey: false, Timeout: 5 * sec}, {DeleteKey: true, Wait: false, Timeout: 2 * sec}}[idx%4]
	h := r.pickD(500*ms, 1*sec)
	s := &Spec{TTL: 5 * h, NoPreempt: true, Tags: []string{"lifecycle", "closewatchstop"}}
	s.Lat = Latency{Min: ms, Max: r.pickD(2*ms, 5*ms)}
	s.Insts = mkInsts(2, 1, h)
	s.Actions = append(s.Actions, Action{At: 10 * ms, Kind: "start", Inst: "i0"}, Action{At: 300 * ms, Kind: "start", Inst: "i1"},
		Action{At: 2*sec + r.dur(0, 400*ms), Kind: "closewatch", Inst: "i1"},
		Action{After: gap, Kind: "stop", Inst: "i1", Stop: &sv},
		Action{After: ms, Kind: "waitapi", Inst: "i1", D: 8 * sec})
	s.Duration = 3 * h
	s.Sample = sampleFor(h)
	return s
}

// ---------------------------------------------------------------------------
// reconnectrenew: a reconnect notification reaches the leader of term N; the verification's
// first read is slow (2 H + 300 ms). Meanwhile the record is removed, the refresh of term N is refused,
// and the same instance wins term N+1. Then the slow read is answered and the verification goes
// on - in term N+1. Whatever it concludes and whatever it writes, every version of the record
// written in term N+1 carries the token of term N+1.
// ---------------------------------------------------------------------------

// ReconnectRenewTotal is the size of the enumeration.
func ReconnectRenewTotal() int { return 2 * 2 * 2 }

func genReconnectRenew(r rng, k int) *Spec {
	idx := k % ReconnectRenewTotal()
	h := []time.Duration{200 * ms, 500 * ms}[idx%2]
	idx /= 2
	phase := []string{"req", "resp"}[idx%2]
	idx /= 2
	gone := []string{"outdel", "outexpire"}[idx%2]
	s := &Spec{TTL: 5 * h, NoPreempt: true, Tags: []string{"connection", "reconnectrenew", gone}}
	s.Lat = Latency{Max: r.pickD(0, 3*ms)}
	s.Insts = mkInsts(1, 1, h)
	s.Insts[0].Conn = true
	s.Insts[0].Grace = 10 * h
	s.Breaks = []BreakSpec{{Name: "rr", Client: "i0", Op: "Get", Nth: 1, Phase: phase}}
	t := 2*sec + h/3
	s.Actions = append(s.Actions,
		Action{At: 5 * ms, Kind: "start", Inst: "i0"},
		Action{At: t, Kind: "conn", Inst: "i0", Val: "D"},
		Action{At: t + 20*ms, Kind: "arm", Break: "rr"},
		Action{Chain: true, Kind: "conn", Inst: "i0", Val: "R"},
		Action{After: ms, Kind: "waitbreak", Break: "rr", D: 3 * sec},
		Action{After: ms, Kind: gone, Inst: "g0"},
		Action{After: 2*h + 300*ms, Kind: "release", Break: "rr"}, // (shorter than the verification's own time-out of 2 s)
	)
	s.Duration = t + 2*sec + 6*h + sec
	s.Sample = sampleFor(h)
	return s
}

// ---------------------------------------------------------------------------
// closewatchlate: the store ends a follower's watch; the follower's fallback read is still on
// its way to the store when the leader leaves (key deleted) and the follower itself is stopped;
// the read is answered - "no such key" - after the stop call has returned. Whatever that answer
// sets in motion belongs to a run that is over (run under the race detector for C20: anything it
// touches is touched concurrently with the stop call's last steps).
// ---------------------------------------------------------------------------

// CloseWatchLateTotal is the size of the enumeration.
func CloseWatchLateTotal() int { return 2 * 2 }

func genCloseWatchLate(r rng, k int) *Spec {
	idx := k % CloseWatchLateTotal()
	sv := []StopVariant{{Plain: true}, {DeleteKey: false, Timeout: 5 * sec}}[idx%2]
	idx /= 2
	rel := []time.Duration{ms, 50 * ms}[idx%2]
	h := r.pickD(500*ms, 1*sec)
	s := &Spec{TTL: 5 * h, NoPreempt: true, Tags: []string{"lifecycle", "closewatchlate"}}
	s.Lat = Latency{Min: ms, Max: r.pickD(2*ms, 5*ms)}
	s.Insts = mkInsts(2, 1, h)
	s.Breaks = []BreakSpec{{Name: "cw", Client: "i1", Op: "Get", Nth: 1, Phase: "req"}}
	s.Actions = append(s.Actions, Action{At: 10 * ms, Kind: "start", Inst: "i0"}, Action{At: 300 * ms, Kind: "start", Inst: "i1"},
		Action{At: 2*sec + h/3, Kind: "arm", Break: "cw"},
		Action{Chain: true, Kind: "closewatch", Inst: "i1"},
		Action{After: ms, Kind: "waitbreak", Break: "cw", D: 3 * sec},
		Action{After: ms, Kind: "stop", Inst: "i0", Stop: &StopVariant{DeleteKey: true, Wait: true, Timeout: 5 * sec}},
		Action{After: ms, Kind: "waitapi", Inst: "i0", D: 8 * sec},
		Action{After: ms, Kind: "stop", Inst: "i1", Stop: &sv},
		Action{After: ms, Kind: "waitapi", Inst: "i1", D: 8 * sec},
		Action{After: rel, Kind: "release", Break: "cw"})
	s.Duration = 2*sec + 4*h
	s.Sample = sampleFor(h)
	return s
}

// ---------------------------------------------------------------------------
// bucketreset: an operator deletes the bucket and creates it again while an election is
// running on it: the record is gone without a notification, the store's revisions start
// over at 1, the watches end. The leader loses its term at its next refresh; after that the
// key is vacant and the instances - which have all seen revisions far above 1 - fill it
// within the usual bound. (With every watch notification dropped, and with none dropped.)
// ---------------------------------------------------------------------------

// BucketResetTotal is the size of the enumeration.
func BucketResetTotal() int { return 2 * 2 * 2 }

func genBucketReset(r rng, k int) *Spec {
	idx := k % BucketResetTotal()
	drop := idx%2 == 0
	idx /= 2
	n := 1 + idx%2
	idx /= 2
	h := []time.Duration{200 * ms, 500 * ms}[idx%2]
	s := &Spec{TTL: 3 * h, NoPreempt: true, Tags: []string{"c06", "bucketreset"}}
	s.Lat = Latency{Min: 0, Max: r.pickD(ms, 5*ms)}
	if drop {
		s.Watch = WatchPolicy{DropP: 1}
	}
	s.Insts = mkInsts(n, 1, h)
	s.Actions = append(s.Actions, Action{At: 10 * ms, Kind: "start", Inst: "i0"})
	if n == 2 {
		s.Actions = append(s.Actions, Action{At: 300 * ms, Kind: "start", Inst: "i1"})
	}
	s.Actions = append(s.Actions, Action{At: 10*ms + 12*h + r.dur(0, h), Kind: "outreset", Inst: "g0"})
	s.Duration = s.TTL + 8*h + 2*sec
	s.Sample = sampleFor(h)
	return s
}

// ---------------------------------------------------------------------------
// restartinrelease: StopWithContext{DeleteKey, WaitForDemote} of a leader whose OnPromote
// callback winds down slowly - longer than the lease: the record of the ended term expires
// while the stop call waits. Then the call's ownership read goes out and is held on its way;
// the application starts the election again (another goroutine: a supervisor), the key is
// free, a new term begins under a new token; now the read is served - it shows the NEW term's
// record. The shutdown of the earlier run leaves it alone.
// ---------------------------------------------------------------------------

// RestartInReleaseTotal is the size of the enumeration.
func RestartInReleaseTotal() int { return 2 * 2 * 2 }

func genRestartInRelease(r rng, k int) *Spec {
	idx := k % RestartInReleaseTotal()
	phase := []string{"req", "resp"}[idx%2] // "resp": served before the restart (shows no record), answered after it
	idx /= 2
	two := idx%2 == 1
	idx /= 2
	h := []time.Duration{400 * ms, 1 * sec}[idx%2]
	// (fault-free: the store answers every call well below H/2 - the read is held for 50 ms;
	// only the application's own OnPromote callback is slow to return)
	s := &Spec{TTL: 3 * h, Benign: true, NoPreempt: true, Tags: []string{"lifecycle", "restartinrelease", phase}}
	s.Lat = Latency{Min: ms, Max: r.pickD(2*ms, 5*ms)}
	n := 1
	if two {
		n = 2
	}
	s.Insts = mkInsts(n, 1, h)
	s.Insts[0].BlockPromote = true
	s.Insts[0].PromoteLinger = s.TTL + 2*h
	s.Breaks = []BreakSpec{{Name: "og", Client: "i0", Op: "Get", Nth: 1, Phase: phase}}
	s.Actions = append(s.Actions, Action{At: 10 * ms, Kind: "start", Inst: "i0"},
		Action{At: 2 * sec, Kind: "arm", Break: "og"},
		Action{Chain: true, Kind: "stop", Inst: "i0", Stop: &StopVariant{DeleteKey: true, Wait: true, Timeout: 8 * sec}},
		Action{After: ms, Kind: "waitbreak", Break: "og", D: 6 * sec},
		Action{After: ms, Kind: "start", Inst: "i0"},
		Action{After: 50 * ms, Kind: "release", Break: "og"},
		Action{After: ms, Kind: "waitapi", Inst: "i0", D: 8 * sec})
	if two {
		// a second instance joins afterwards: it must find the restarted instance's record
		s.Actions = append(s.Actions, Action{After: 100 * ms, Kind: "start", Inst: "i1"})
	}
	s.Duration = 6 * h
	s.Sample = sampleFor(h)
	return s
}

// ---------------------------------------------------------------------------
// latedeleteack: StopWithContext{DeleteKey} of a leader; the store applies the Delete at once
// and sits on the answer. The stop call gives up after its time-out (300 ms) - or is still
// waiting - when the application starts the same election again; the key is free, the new run
// wins it and leads. Only then the answer to the old Delete arrives. Whatever the earlier
// shutdown still does with it, the new term's leader shows itself as leader: its own id in
// LeaderID, its token, state LEADER.
// ---------------------------------------------------------------------------

// LateDeleteAckTotal is the size of the enumeration.
func LateDeleteAckTotal() int { return 2 * 2 * 2 }

func genLateDeleteAck(r rng, k int) *Spec {
	idx := k % LateDeleteAckTotal()
	giveUp := idx%2 == 0 // the stop call runs into its time-out before the restart
	idx /= 2
	wait := idx%2 == 0
	idx /= 2
	h := []time.Duration{200 * ms, 1 * sec}[idx%2]
	s := &Spec{TTL: 5 * h, NoPreempt: true, Tags: []string{"lifecycle", "latedeleteack"}}
	s.Lat = Latency{Min: ms, Max: r.pickD(2*ms, 5*ms)}
	s.Insts = mkInsts(1, 1, h)
	s.Breaks = []BreakSpec{{Name: "ld", Client: "i0", Op: "Delete", Nth: 1, Phase: "resp", Armed: true}}
	to := 5 * sec
	if giveUp {
		to = 300 * ms
	}
	s.Actions = append(s.Actions, Action{At: 10 * ms, Kind: "start", Inst: "i0"},
		Action{At: 2*sec + h/3, Kind: "stop", Inst: "i0", Stop: &StopVariant{DeleteKey: true, Wait: wait, Timeout: to}},
		Action{After: ms, Kind: "waitbreak", Break: "ld", D: 3 * sec})
	if giveUp {
		s.Actions = append(s.Actions, Action{After: ms, Kind: "waitapi", Inst: "i0", D: 3 * sec})
	}
	s.Actions = append(s.Actions,
		Action{After: 10 * ms, Kind: "start", Inst: "i0"},
		Action{After: 400 * ms, Kind: "release", Break: "ld"}, // the new run has won the key (jitter <= 100 ms)
		Action{After: ms, Kind: "waitapi", Inst: "i0", D: 8 * sec})
	s.Duration = 2*sec + 8*h
	s.Sample = sampleFor(h)
	return s
}

// ---------------------------------------------------------------------------
// lateloser: the leader shuts down gracefully; the follower hears of it twice (every watch
// notification duplicated) and runs two acquisition rounds side by side. The first Create
// wins - its answer is a little slow (below H/2); the other round's attempts are refused one
// after the other, and its LAST attempt is on its way when the winner's answer arrives and
// the term begins. Then that last attempt is refused too and the round gives up ("settle as
// follower"): it gives up on its own account - the term that the other round began is none
// of its business.
// ---------------------------------------------------------------------------

// LateLoserTotal is the size of the enumeration.
func LateLoserTotal() int { return 2 * 3 }

func genLateLoser(r rng, k int) *Spec {
	idx := k % LateLoserTotal()
	h := []time.Duration{2 * sec, 3 * sec}[idx%2]
	idx /= 2
	gap := []time.Duration{ms, 20 * ms, 100 * ms}[idx%3]
	s := &Spec{TTL: 3 * h, Benign: true, NoPreempt: true, Tags: []string{"leftover", "lateloser"}}
	s.Lat = Latency{Min: ms, Max: r.pickD(2*ms, 5*ms)}
	s.Watch = WatchPolicy{DupP: 1}
	s.Insts = mkInsts(2, 1, h)
	s.Breaks = []BreakSpec{
		{Name: "win", Client: "i1", Op: "Create", Nth: 1, Phase: "resp"},
		{Name: "last", Client: "i1", Op: "Create", Nth: 5, Phase: "req"},
	}
	s.Actions = append(s.Actions, Action{At: 10 * ms, Kind: "start", Inst: "i0"}, Action{At: 300 * ms, Kind: "start", Inst: "i1"},
		Action{At: 3 * sec, Kind: "arm", Break: "win"},
		Action{Chain: true, Kind: "arm", Break: "last"},
		Action{Chain: true, Kind: "stop", Inst: "i0", Stop: &StopVariant{DeleteKey: true, Wait: true, Timeout: 5 * sec}},
		Action{After: ms, Kind: "waitbreak", Break: "win", D: 2 * sec},
		Action{After: ms, Kind: "waitbreak", Break: "last", D: 900 * ms},
		Action{After: ms, Kind: "release", Break: "win"},
		Action{After: gap, Kind: "release", Break: "last"},
	)
	s.Duration = 6 * h
	s.Sample = sampleFor(h)
	return s
}

// ---------------------------------------------------------------------------
// ordemotetwice: a term is ended by a failed ValidateTokenOrDemote; its OnDemote callback is
// slow (1-3 s). Meanwhile the key becomes free, the same instance is elected again, that
// record is replaced from outside too, and the application validates again while the first
// term's OnDemote is still running: false, and the second term is demoted as well.
// ---------------------------------------------------------------------------

// OrDemoteTwiceTotal is the size of the enumeration.
func OrDemoteTwiceTotal() int { return 2 * 2 * 2 }

func genOrDemoteTwice(r rng, k int) *Spec {
	idx := k % OrDemoteTwiceTotal()
	h := []time.Duration{200 * ms, 500 * ms}[idx%2]
	idx /= 2
	slow := []time.Duration{1500 * ms, 3 * sec}[idx%2]
	idx /= 2
	second := []string{"forge", "getfault"}[idx%2]
	s := &Spec{TTL: 3 * h, NoPreempt: true, Tags: []string{"hostile", "ordemotetwice"}}
	s.Lat = Latency{Max: r.pickD(0, 2*ms)}
	s.Insts = mkInsts(1, 1, h)
	s.Insts[0].DemoteDelay = slow
	s.Actions = append(s.Actions, Action{At: 10 * ms, Kind: "start", Inst: "i0"},
		Action{At: 10*ms + 4*h, Kind: "output", Inst: "g0", Val: `{"id":"intruder","token":"x"}`},
		Action{After: ms, Kind: "validate", Inst: "i0", Val: "bg", OrDemote: true},
		Action{After: 50 * ms, Kind: "outdel", Inst: "g0"},
		// re-election: watch event or periodic check, jitter, Create
		Action{After: 900 * ms, Kind: "sample"})
	if second == "forge" {
		s.Actions = append(s.Actions, Action{After: ms, Kind: "output", Inst: "g0", Val: `{"id":"intruder","token":"y"}`})
	} else {
		s.Actions = append(s.Actions, Action{After: ms, Kind: "rule", Rule: &FaultRule{Client: "i0", Op: "Get", From: 10*ms + 4*h + 900*ms, Kind: "err", Err: "timeout"}})
	}
	s.Actions = append(s.Actions, Action{After: ms, Kind: "validate", Inst: "i0", Val: "bg", OrDemote: true},
		Action{After: ms, Kind: "waitapi", Inst: "i0", D: 8 * sec})
	s.Duration = slow + 4*h
	s.Sample = sampleFor(h)
	return s
}

// ---------------------------------------------------------------------------
// stalediag: a refresh is refused (the record was replaced from outside); the heartbeat
// loop's diagnostic read ("who holds it now?") is served and its answer held on its way.
// Meanwhile the term ends another way (a failed ValidateTokenOrDemote), the key becomes free
// and the same instance leads a new term. Then the old loop's read returns: whatever that
// loop still does, it does to its own, ended term - the running term keeps its flag, its
// callbacks and its promotion context.
// ---------------------------------------------------------------------------

// StaleDiagTotal is the size of the enumeration.
func StaleDiagTotal() int { return 2 * 2 }

func genStaleDiag(r rng, k int) *Spec {
	idx := k % StaleDiagTotal()
	h := []time.Duration{200 * ms, 500 * ms}[idx%2]
	idx /= 2
	late := []time.Duration{100 * ms, 2 * h}[idx%2]
	s := &Spec{TTL: 5 * h, NoPreempt: true, Tags: []string{"hostile", "stalediag"}}
	s.Lat = Latency{Max: r.pickD(0, 2*ms)}
	s.Insts = mkInsts(1, 1, h)
	s.Insts[0].BlockPromote = true
	s.Breaks = []BreakSpec{{Name: "dg", Client: "i0", Op: "Get", Nth: 1, Phase: "resp"}}
	t := 10*ms + 4*h + h/2
	s.Actions = append(s.Actions, Action{At: 10 * ms, Kind: "start", Inst: "i0"},
		Action{At: t, Kind: "arm", Break: "dg"},
		Action{Chain: true, Kind: "output", Inst: "g0", Val: `{"id":"intruder","token":"x"}`},
		// the next tick's refresh is refused; the loop reads the record: held
		Action{After: ms, Kind: "waitbreak", Break: "dg", D: 3 * sec},
		Action{After: ms, Kind: "validate", Inst: "i0", Val: "bg", OrDemote: true},
		Action{After: 20 * ms, Kind: "outdel", Inst: "g0"},
		Action{After: 900*ms + late, Kind: "release", Break: "dg"})
	s.Duration = 6 * h
	s.Sample = sampleFor(h)
	return s
}

// ---------------------------------------------------------------------------
// slowphases: StopWithContext{WaitForDemote, Timeout 1 s} of a leader whose OnPromote winds
// down for 600 ms (the goroutine wait takes that long) and whose OnDemote takes 800 ms: the
// phases share ONE budget - the call gives up after 1 s, not after 1.4 s.
// ---------------------------------------------------------------------------

// SlowPhasesTotal is the size of the enumeration.
func SlowPhasesTotal() int { return 2 * 2 }

func genSlowPhases(r rng, k int) *Spec {
	idx := k % SlowPhasesTotal()
	del := idx%2 == 0
	idx /= 2
	h := []time.Duration{500 * ms, 1 * sec}[idx%2]
	s := &Spec{TTL: 5 * h, NoPreempt: true, Tags: []string{"lifecycle", "slowphases"}}
	s.Lat = Latency{Max: r.pickD(0, 2*ms)}
	s.Insts = mkInsts(1, 1, h)
	s.Insts[0].BlockPromote = true
	s.Insts[0].PromoteLinger = 600 * ms
	s.Insts[0].DemoteDelay = 800 * ms
	s.Actions = append(s.Actions, Action{At: 10 * ms, Kind: "start", Inst: "i0"},
		Action{At: 2 * sec, Kind: "stop", Inst: "i0", Stop: &StopVariant{DeleteKey: del, Wait: true, Timeout: 1 * sec}},
		Action{After: ms, Kind: "waitapi", Inst: "i0", D: 8 * sec})
	s.Duration = 3 * sec
	s.Sample = sampleFor(h)
	return s
}

// ---------------------------------------------------------------------------
// holddown: three priority levels inside one TTL, no faults. a (1) leads; b (2, takeover)
// starts and preempts a; c (3, takeover) starts and preempts b; c leaves and releases the
// key; a happens to win the free key (b's store is a little slower for one call). From then
// on b sits next to the lower-priority leader a and has to preempt it within 3 H - that it
// took the key over once already, a moment ago, changes nothing.
// ---------------------------------------------------------------------------

// HoldDownTotal is the size of the enumeration.
func HoldDownTotal() int { return 2 * 2 }

func genHoldDown(r rng, k int) *Spec {
	idx := k % HoldDownTotal()
	h := []time.Duration{200 * ms, 500 * ms}[idx%2]
	idx /= 2
	wait := idx%2 == 0
	s := &Spec{TTL: 20 * h, Prompt: true, Tags: []string{"priority", "holddown"}}
	s.Lat = Latency{Min: 0, Max: h / 20}
	s.Watch = WatchPolicy{DelayMax: r.pickD(0, h/10)}
	s.Insts = mkInsts(3, 1, h)
	s.Insts[0].Priority = 1
	s.Insts[1].Priority, s.Insts[1].Takeover = 2, true
	s.Insts[2].Priority, s.Insts[2].Takeover = 3, true
	t := 10*ms + 2*h
	// b's Create calls fail for a moment around c's departure, so that a wins the free key
	tc := t + 3*h + 2*h
	s.Rules = append(s.Rules, FaultRule{Client: "i1", Op: "Create", From: tc, To: tc + 300*ms, Kind: "err", Err: "timeout"})
	sv := &StopVariant{DeleteKey: true, Wait: wait, Timeout: 5 * sec}
	s.Actions = append(s.Actions, Action{At: 10 * ms, Kind: "start", Inst: "i0"},
		Action{At: t, Kind: "start", Inst: "i1"},
		Action{At: t + 3*h, Kind: "start", Inst: "i2"},
		Action{At: tc, Kind: "stop", Inst: "i2", Stop: sv})
	s.PromptAfter = tc + 300*ms + h
	s.Duration = 10 * h
	s.Sample = sampleFor(h)
	return s
}

// ---------------------------------------------------------------------------
// busypromote: the application's OnPromote callback is busy and does not return when its
// context ends (a slow warm-up: it goes on for 8 s). The record is replaced / deleted /
// expires, or the refreshes fail: the leader stops reporting leadership AND runs its demotion
// callback within the usual bounds - the demotion is not held back by the other callback.
// ---------------------------------------------------------------------------

// BusyPromoteTotal is the size of the enumeration.
func BusyPromoteTotal() int { return 4 * 2 }

func genBusyPromote(r rng, k int) *Spec {
	idx := k % BusyPromoteTotal()
	kind := []string{"replaced", "deleted", "expired", "err-timeout"}[idx%4]
	idx /= 4
	h := []time.Duration{200 * ms, 1 * sec}[idx%2]
	s := &Spec{TTL: 5 * h, NoPreempt: true, Tags: []string{"c03", kind, "busypromote"}}
	s.Lat = Latency{Max: r.pickD(0, 3*ms)}
	s.Insts = mkInsts(1, 1, h)
	s.Insts[0].BlockPromote = true
	s.Insts[0].PromoteLinger = 8 * sec
	t0 := 10 * ms
	s.Actions = append(s.Actions, Action{At: t0, Kind: "start", Inst: "i0"})
	at := t0 + 3*h + h/3
	switch kind {
	case "replaced":
		s.Actions = append(s.Actions, Action{At: at, Kind: "output", Inst: "g0", Val: `{"id":"intruder","token":"tok-b"}`})
	case "deleted":
		s.Actions = append(s.Actions, Action{At: at, Kind: "outdel", Inst: "g0"})
	case "expired":
		s.Actions = append(s.Actions, Action{At: at, Kind: "outexpire", Inst: "g0"})
	default:
		s.Rules = append(s.Rules, FaultRule{Client: "i0", Op: "Update", FromOrd: 4, Kind: "err", Err: "timeout"})
	}
	s.Duration = 8*h + 10*sec
	s.Sample = sampleFor(h)
	return s
}

// ---------------------------------------------------------------------------
// refusedthen: a takeover-enabled instance c is refused once by a leader b of equal or higher
// priority. b goes away without a delete (its record expires), while c is cut off from the
// store (every call fails, its watch is closed and cannot be re-established); a
// lower-priority instance a takes the vacant key. c's connection comes back: first its reads
// (the periodic check sees a's record), a little later its watch. From then on everything is
// fault-free, c is the highest-priority instance and has to preempt a promptly: what it
// concluded about b says nothing about a.
// ---------------------------------------------------------------------------

// RefusedThenTotal is the size of the enumeration.
func RefusedThenTotal() int { return 2 * 2 * 2 * 2 }

func genRefusedThen(r rng, k int) *Spec {
	idx := k % RefusedThenTotal()
	cPrio := []int{3, 2}[idx%2]
	idx /= 2
	plain := idx%2 == 1
	idx /= 2
	h := []time.Duration{200 * ms, 500 * ms}[idx%2]
	idx /= 2
	// how c's watch falls behind its periodic check: the watch is lost and comes back later
	// than the reads ("rewatch"), or it stays up and the notification of a's record is slow ("hold")
	hold := idx%2 == 0
	s := &Spec{TTL: 3 * h, Prompt: true, Tags: []string{"priority", "refusedthen"}}
	s.Lat = Latency{Min: 0, Max: h / 20}
	s.Watch = WatchPolicy{DelayMax: r.pickD(0, h/10)}
	s.Insts = mkInsts(3, 1, h)
	s.Insts[0].Priority = 1
	s.Insts[1].Priority = 3
	s.Insts[2].Priority, s.Insts[2].Takeover = cPrio, true
	t1 := 10*ms + 6*h + r.dur(0, h)
	t2 := t1 + s.TTL + 1*sec + 2*h
	t3 := t2 + 700*ms + r.dur(0, 400*ms)
	s.Rules = append(s.Rules, FaultRule{Client: "i2", From: t1, To: t2, Kind: "err", Err: r.pickS("connclosed", "timeout", "noresponders")})
	sv := &StopVariant{Timeout: 5 * sec}
	if plain {
		sv = &StopVariant{Plain: true}
	}
	s.Actions = append(s.Actions,
		Action{At: 10 * ms, Kind: "start", Inst: "i1"},
		Action{At: 10*ms + 2*h, Kind: "start", Inst: "i2"},
	)
	if hold {
		s.Tags = append(s.Tags, "hold")
		s.Breaks = []BreakSpec{{Name: "dv", Client: "i2", Op: "Deliver", Nth: 1, Phase: "site"}}
		s.Actions = append(s.Actions,
			Action{At: t1, Kind: "stop", Inst: "i1", Stop: sv},
			Action{At: t1 + h/4, Kind: "arm", Break: "dv"},
			Action{At: t1 + h, Kind: "start", Inst: "i0"},
			Action{At: t3, Kind: "release", Break: "dv"},
		)
	} else {
		s.Tags = append(s.Tags, "rewatch")
		s.Rules = append(s.Rules, FaultRule{Client: "i2", Op: "Watch", From: t1, To: t3, Kind: "err", Err: "timeout"})
		s.Actions = append(s.Actions,
			Action{At: t1, Kind: "closewatch", Inst: "i2"},
			Action{Chain: true, Kind: "stop", Inst: "i1", Stop: sv},
			Action{At: t1 + h, Kind: "start", Inst: "i0"},
			Action{At: t3, Kind: "sample"},
		)
	}
	s.PromptAfter = t3 + 1*sec + h
	s.Duration = 1*sec + 10*h
	s.Sample = sampleFor(h)
	return s
}

// ---------------------------------------------------------------------------
// blindrelease: a leader has just been preempted by a higher-priority instance and has not
// noticed yet (its watch event is on its way, its next refresh not yet due) when it is
// stopped with DeleteKey - and the reads of that shutdown fail (error or no answer) while
// its Delete would get through. It cannot know whose record is there: no delete.
// ---------------------------------------------------------------------------

// BlindReleaseTotal is the size of the enumeration.
func BlindReleaseTotal() int { return 4 * 2 * 2 }

func genBlindRelease(r rng, k int) *Spec {
	idx := k % BlindReleaseTotal()
	fault := []FaultRule{{Kind: "err", Err: "timeout"}, {Kind: "err", Err: "noresponders"}, {Kind: "err", Err: "connclosed"}, {Kind: "hang"}}[idx%4]
	idx /= 4
	during := idx%2 == 0 // stop while the preemptor's write has been applied but not answered yet
	idx /= 2
	wait := idx%2 == 0
	h := r.pickD(500*ms, 1*sec)
	s := &Spec{TTL: 5 * h, Tags: []string{"priority", "blindrelease", fault.Kind + fault.Err}}
	s.Lat = Latency{Min: ms, Max: r.pickD(2*ms, 5*ms)}
	s.Watch = WatchPolicy{DelayMax: 200 * ms}
	s.Insts = mkInsts(2, 1, h)
	s.Insts[0].Priority = 1
	s.Insts[1].Priority, s.Insts[1].Takeover = 3, true
	t := 10*ms + 4*h + 40*ms
	fault.Client, fault.Op, fault.From = "i0", "Get", t
	s.Rules = append(s.Rules, fault)
	s.Breaks = []BreakSpec{{Name: "tk", Client: "i1", Op: "Update", Nth: 1, Phase: "resp", Armed: true}}
	stop := &StopVariant{DeleteKey: true, Wait: wait, Timeout: 3 * sec}
	s.Actions = append(s.Actions,
		Action{At: 10 * ms, Kind: "start", Inst: "i0"},
		Action{At: t, Kind: "start", Inst: "i1"},
		Action{After: ms, Kind: "waitbreak", Break: "tk", D: 3 * sec},
	)
	if during {
		s.Actions = append(s.Actions,
			Action{Chain: true, Kind: "stop", Inst: "i0", Stop: stop},
			Action{After: r.pickD(5*ms, 50*ms), Kind: "release", Break: "tk"},
		)
	} else {
		s.Actions = append(s.Actions,
			Action{Chain: true, Kind: "release", Break: "tk"},
			Action{After: r.pickD(ms, 5*ms), Kind: "stop", Inst: "i0", Stop: stop},
		)
	}
	s.Actions = append(s.Actions, Action{After: ms, Kind: "waitapi", Inst: "i0", D: 10 * sec})
	s.Duration = t + 6*h
	s.Sample = sampleFor(h)
	return s
}

// ---------------------------------------------------------------------------
// ctxcancel: the context the application handed to Start ends (shutdown signal); a stop
// call follows - at once, or a little later. The stop call stops the election like any
// other: STOPPED, not leader, demotion callback, record deleted if asked for.
// ---------------------------------------------------------------------------

// CtxCancelTotal is the size of the enumeration.
func CtxCancelTotal() int { return 3 * 8 * 2 }

func genCtxCancel(r rng, k int) *Spec {
	idx := k % CtxCancelTotal()
	gap := []time.Duration{0, 5 * ms, 300 * ms}[idx%3]
	idx /= 3
	// what follows the end of the context: a stop call (4 variants), another Start on the same
	// object without any stop call, or nothing at all for longer than a TTL
	follow := idx % 8
	sv := []StopVariant{{Plain: true}, {DeleteKey: true, Wait: true, Timeout: 5 * sec}, {DeleteKey: false, Timeout: 5 * sec}, {DeleteKey: true, Wait: true, CtxKind: "deadline", CtxD: 2 * sec}, {}, {}, {}, {}}[follow]
	idx /= 8
	leader := idx%2 == 0
	h := r.pickD(500*ms, 1*sec)
	s := &Spec{TTL: 5 * h, NoPreempt: true, Tags: []string{"lifecycle", "ctxcancel"}}
	s.Lat = Latency{Min: ms, Max: r.pickD(2*ms, 5*ms)}
	s.Insts = mkInsts(2, 1, h)
	x := "i0"
	if !leader {
		x = "i1"
	}
	s.Inst(x).StartCtx = true
	s.Inst(x).BlockPromote = r.chance(0.5)
	s.Actions = append(s.Actions, Action{At: 10 * ms, Kind: "start", Inst: "i0"}, Action{At: 300 * ms, Kind: "start", Inst: "i1"},
		Action{At: 2 * sec, Kind: "cancelstart", Inst: x})
	switch follow {
	case 4:
		s.Tags = append(s.Tags, "start-again")
		if gap == 0 {
			s.Actions = append(s.Actions, Action{Chain: true, Kind: "start", Inst: x})
		} else {
			s.Actions = append(s.Actions, Action{After: gap, Kind: "start", Inst: x})
		}
		s.Duration = s.TTL + 4*h
	case 5:
		s.Tags = append(s.Tags, "nothing-follows")
		s.Duration = s.TTL + 4*h
	case 7:
		// the election is stopped properly and started again with a context of its own; once it
		// leads again, the context of the FIRST run ends (a deferred cancel, a time-out): that
		// concerns nobody any more. (The "cancelstart" of this scenario is replaced.)
		s.Tags = append(s.Tags, "old-context-ends-later")
		s.Actions = s.Actions[:len(s.Actions)-1]
		s.Actions = append(s.Actions,
			Action{At: 2 * sec, Kind: "stop", Inst: x, Stop: &StopVariant{DeleteKey: true, Wait: true, Timeout: 5 * sec}},
			Action{After: gap + ms, Kind: "start", Inst: x},
			Action{After: s.TTL + 2*h, Kind: "cancelstart", Inst: x, Val: "previous"})
		s.Duration = 4 * h
	case 6:
		// no stop call either, but the record changes hands and the application validates: a
		// false verdict of ValidateTokenOrDemote demotes, whatever has become of the Start context
		s.Tags = append(s.Tags, "ordemote-follows")
		s.Actions = append(s.Actions,
			Action{After: gap + h/2, Kind: "output", Inst: "g0", Val: `{"id":"intruder","token":"x"}`},
			Action{After: ms, Kind: "validate", Inst: x, Val: "bg", OrDemote: true})
		s.Duration = 4 * h
	default:
		if gap == 0 {
			s.Actions = append(s.Actions, Action{Chain: true, Kind: "stop", Inst: x, Stop: &sv})
		} else {
			s.Actions = append(s.Actions, Action{After: gap, Kind: "stop", Inst: x, Stop: &sv})
		}
		s.Duration = 2 * h
	}
	s.Actions = append(s.Actions, Action{After: ms, Kind: "waitapi", Inst: x, D: 8 * sec})
	s.Sample = sampleFor(h)
	return s
}

// ---------------------------------------------------------------------------
// nowaitrestart: a leader is stopped by a call that does not wait for OnDemote (or gives
// up waiting) and started again at once; the detached OnDemote goroutine is held at its
// entry - before it has signalled that it started - until the new run has acquired the
// key. Callbacks still alternate: the new term's OnPromote waits for it.
// ---------------------------------------------------------------------------

// NoWaitRestartTotal is the size of the enumeration.
func NoWaitRestartTotal() int { return 3 * 3 * 2 }

func genNoWaitRestart(r rng, k int) *Spec {
	idx := k % NoWaitRestartTotal()
	sv := []StopVariant{{DeleteKey: true, Wait: false, Timeout: 5 * sec}, {DeleteKey: false, Wait: false, Timeout: 5 * sec}, {DeleteKey: true, Wait: true, Timeout: 200 * ms}}[idx%3]
	idx /= 3
	rel := []time.Duration{ms, 50 * ms, 400 * ms}[idx%3]
	idx /= 3
	two := idx%2 == 1
	h := r.pickD(200*ms, 500*ms)
	s := &Spec{TTL: 3 * h, NoPreempt: true, Tags: []string{"lifecycle", "nowaitrestart"}}
	s.Lat = Latency{Max: r.pickD(0, 2*ms)}
	n := 1
	if two {
		n = 2
	}
	s.Insts = mkInsts(n, 1, h)
	s.Insts[0].BlockPromote = r.chance(0.5)
	s.Breaks = []BreakSpec{{Name: "dg", Client: "*", Op: "yield:demoteGoroutineEntry", Nth: 1, Phase: "site"}}
	s.Actions = append(s.Actions, Action{At: 10 * ms, Kind: "start", Inst: "i0"})
	if two {
		s.Actions = append(s.Actions, Action{At: 300 * ms, Kind: "start", Inst: "i1"})
	}
	s.Actions = append(s.Actions,
		Action{At: 2 * sec, Kind: "arm", Break: "dg"},
		Action{Chain: true, Kind: "restart", Inst: "i0", Stop: &sv},
		Action{After: ms, Kind: "waitbreak", Break: "dg", D: 3 * sec},
		Action{After: 300*ms + rel, Kind: "release", Break: "dg"},
		Action{After: ms, Kind: "waitapi", Inst: "i0", D: 8 * sec},
	)
	s.Duration = 4 * h
	s.Sample = sampleFor(h)
	return s
}

// ---------------------------------------------------------------------------
// newlogline: a log line whose message the catalogue does not know (one that a change to
// the library has introduced) is a place where the library calls user code that did not
// exist before. Its 1st / 2nd / 3rd occurrence is held; the record goes away or nothing
// happens; virtual time passes (1.2 H or TTL + 2 H: terms end, the instance is re-elected);
// then the call returns. On the unchanged library nothing is ever held.
// ---------------------------------------------------------------------------

// NewLogLineTotal is the size of the enumeration.
func NewLogLineTotal() int { return 3 * 4 * 2 * 2 }

func genNewLogLine(r rng, k int) *Spec {
	for _, m := range hrLogs {
		KnownLogs[m] = true
	}
	idx := k % NewLogLineTotal()
	nth := 1 + idx%3
	idx /= 3
	race := []string{"outdel", "outexpire", "none", "stop"}[idx%4]
	idx /= 4
	long := idx%2 == 1
	idx /= 2
	two := idx%2 == 1
	h := r.pickD(200*ms, 500*ms)
	s := &Spec{TTL: 3 * h, NoPreempt: true, Tags: []string{"newlogline", race}}
	s.Lat = Latency{Max: r.pickD(0, 2*ms)}
	n := 1
	if two {
		n = 2
	}
	s.Insts = mkInsts(n, 1, h)
	s.Insts[0].BlockPromote = r.chance(0.5)
	s.Insts[0].ValInterval = r.pickD(0, h)
	s.Breaks = []BreakSpec{{Name: "nl", Client: "i0", Op: "log:?new", Nth: nth, Phase: "sink", Armed: true}}
	var acts []Action
	switch race {
	case "outdel":
		acts = append(acts, Action{Kind: "outdel", Inst: "g0"})
	case "outexpire":
		acts = append(acts, Action{Kind: "outexpire", Inst: "g0"})
	case "stop":
		acts = append(acts, Action{Kind: "restart", Inst: "i0", Stop: &StopVariant{DeleteKey: true, Timeout: 5 * sec}})
	}
	nap := h * 12 / 10
	if long {
		nap = s.TTL + 2*h
	}
	acts = append(acts, Action{Kind: "spin", D: 2 * ms}, Action{Kind: "nap", Inst: "i0", D: nap}, Action{Kind: "release", Break: "nl"})
	s.Reactions = []Reaction{{Break: "nl", Actions: acts}}
	s.Actions = append(s.Actions, Action{At: 10 * ms, Kind: "start", Inst: "i0"})
	if two {
		s.Actions = append(s.Actions, Action{At: 300 * ms, Kind: "start", Inst: "i1"})
	}
	// a few terms of its own, so that per-term log lines occur more than once
	s.Actions = append(s.Actions,
		Action{At: 2 * sec, Kind: "restart", Inst: "i0", Stop: &StopVariant{DeleteKey: true, Wait: true, Timeout: 5 * sec}},
		Action{At: 4 * sec, Kind: "outdel", Inst: "g0"},
	)
	s.Duration = 3*s.TTL + 2*sec
	s.Sample = sampleFor(h)
	return s
}

// ---------------------------------------------------------------------------
// healthupd: threshold-1 unhealthy ticks, then a HEALTHY tick whose refresh fails
// (transient error / lost acknowledgement), then one more unhealthy tick. The healthy
// report restarts the count whatever happens to that tick's refresh.
// ---------------------------------------------------------------------------

// HealthUpdTotal is the size of the enumeration.
func HealthUpdTotal() int { return 3 * 3 * 2 }

func genHealthUpd(r rng, k int) *Spec {
	idx := k % HealthUpdTotal()
	m := 2 + idx%3
	idx /= 3
	kind := []string{"err", "acklost", "err"}[idx%3]
	errk := []string{"timeout", "timeout", "noresponders"}[idx%3]
	idx /= 3
	tail := 1 + idx%2 // unhealthy ticks after the healthy one (always below the threshold)
	if tail >= m {
		tail = m - 1
	}
	h := r.pickD(500*ms, 1*sec)
	s := &Spec{TTL: 10 * h, NoPreempt: true, Tags: []string{"health", "healthupd"}}
	s.Lat = Latency{Max: r.pickD(0, 2*ms)}
	s.Insts = mkInsts(1, 1, h)
	j := 2 + r.IntN(3)
	// tick numbers (= Update ordinals of i0): j healthy, m-1 unhealthy (no refresh on those),
	// then the healthy tick j+m whose refresh fails
	s.Insts[0].Health = strings.Repeat("h", j) + strings.Repeat("u", m-1) + "h" + strings.Repeat("u", tail) + strings.Repeat("h", 60)
	s.Insts[0].HealthOn, s.Insts[0].MaxFail = true, m
	// unhealthy ticks issue no Update: the failing one is Update number j+1
	s.Rules = append(s.Rules, FaultRule{Client: "i0", Op: "Update", FromOrd: j + 1, ToOrd: j + 1, Kind: kind, Err: errk})
	s.Actions = append(s.Actions, Action{At: 10 * ms, Kind: "start", Inst: "i0"})
	s.Duration = time.Duration(j+m+tail+6) * h
	s.Sample = sampleFor(h)
	return s
}
