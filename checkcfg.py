# Per-property configuration of the driver: which engine/class batches make up the
# quick and thorough tiers (fixed case-list lengths, no time budgets), which
# observation counters are the property's triggers, and the trigger minimums below
# which a run is inconclusive.

def sim(cls, quick, thorough, chunk=25, **kw):
    d = {"engine": "sim", "class": cls, "quick": quick, "thorough": thorough, "chunk": chunk}
    d.update(kw)
    return d

def pure(cls, quick, thorough, chunk=4, **kw):
    d = {"engine": "pure", "class": cls, "quick": quick, "thorough": thorough, "chunk": chunk}
    d.update(kw)
    return d

def rt(cls, quick, thorough, chunk=2, **kw):
    d = {"engine": "rt", "class": cls, "quick": quick, "thorough": thorough, "chunk": chunk}
    d.update(kw)
    return d

def nats(cls, quick, thorough, chunk=4, **kw):
    d = {"engine": "natseng", "class": cls, "quick": quick, "thorough": thorough, "chunk": chunk}
    d.update(kw)
    return d

SIM_ASSUME = [
    "reference store (harness/h/refstore.go) models JetStream KV as calibrated by the C14 differential check",
    "library jitter (math/rand/v2 global) and goroutine order at equal virtual instants are not controlled: a spec denotes a family of executions",
    "virtual time from testing/synctest (go1.25.4)",
]


def R(what):
    return what + "; scenario k of a class is a pure function of (VERIF_SEED, class, k); non-trivial = the property's trigger events were observed in the scenario; distinct = distinct hash of the abstracted trace (event kind, role of instance, cause; times, tokens, revisions removed)"

PROPS = {
    "C01": {"level": "exploration", "trigger": ["c01.mutations"],
        "batches": [sim("restartinrelease", 8, 80), sim("dupacquire", 72, 720), sim("acklosttakeover", 12, 120), sim("negprio", 24, 240), sim("healthleak", 72, 720), sim("fastbeat", 75, 750), sim("slowbeat", 50, 500), sim("benign", 150, 3000), sim("faulty", 150, 4000), sim("lifecycle", 100, 2000), sim("multiterm", 100, 2000), sim("priorace", 100, 2000), sim("c06", 144, 2880), sim("leftover", 60, 600), sim("yieldstop", 190, 570), sim("connection", 200, 3000), sim("holdrace", 350, 3500), sim("twocause", 126, 126), sim("outage", 24, 240), sim("slowdemote", 126, 252), sim("doublestop", 18, 180), sim("blindrelease", 16, 160), sim("chaintakeover", 24, 240), sim("newlogline", 48, 96)],
        "min": {"quick": {"c01.refreshes": 200, "c01.takeovers": 20, "c01.shutdown_deletes": 20, "c01.expiries": 20}},
        "rule": R("oracle over the complete caller-tagged mutation log of the reference store: every successful Create/Update/Delete must fit creation / refresh / legitimate takeover / owner's shutdown delete"), "assumptions": SIM_ASSUME},
    "C02": {"level": "exploration", "trigger": ["c02.flag_up"],
        "batches": [sim("sharedround", 4, 40), sim("restartinrelease", 8, 80), sim("stalecheck", 6, 60), sim("fastbeat", 75, 750), sim("slowbeat", 50, 500), sim("benign", 500, 12000), sim("yieldstop", 190, 570), sim("leftover", 150, 1500), sim("holdrace", 350, 3500), sim("twoinflight", 24, 240), sim("outage", 24, 240), sim("slowdemote", 126, 252), sim("doublestop", 18, 180)],
        "min": {"quick": {"c02.terms": 300, "c02.stops": 100, "c02.stops_inflight": 30}},
        "rule": R("benign class: 1-5 instances x 1-2 groups, H/TTL grid, latency < H/2, watch delay/drop/dup, random Start/Stop/StopWithContext/restart; oracle: instant cross-read of every instance's IsLeader() and the live record inside Metrics.SetIsLeader and at every record change/expiry"), "assumptions": SIM_ASSUME},
    "C03": {"level": "fault_enumeration", "trigger": ["c03.a_obligations", "c03.b_obligations"],
        "batches": [sim("latesuccess", 6, 60), sim("busypromote", 8, 80), sim("slowdemote", 126, 252), sim("ctxcancel", 48, 480), sim("c03grid", 420, 7560), sim("multiterm", 60, 1500), sim("faulty", 60, 1500), sim("holdrace", 350, 3500), sim("twocause", 126, 126), sim("outage", 24, 240)],
        "min": {"quick": {"c03.a_obligations": 40, "c03.b_obligations": 40}},
        "rule": R("c03grid enumerates fault kind (9) x first faulty heartbeat attempt (1..6) x H (5), remaining dimensions (TTL ratio, latency, had-watch-loop) drawn per case; oracle: virtual-time bounds H+2To after replacement/deletion/expiry and 3H+3To after the last successful refresh, at most 3 failing attempts"), "assumptions": SIM_ASSUME},
    "C04": {"level": "exploration", "trigger": ["c04.calls"],
        "batches": [sim("giveupprobe", 16, 160), sim("ordemotetwice", 8, 80), sim("ctxcancel", 48, 480), sim("hostile", 300, 6000), sim("multiterm", 60, 1000), sim("lateack", 192, 768), sim("longprobe", 32, 320), sim("ownprefix", 96, 960), sim("holdrace", 350, 3500)],
        "min": {"quick": {"c04.true": 100, "c04.false": 300, "c04.calls_with_change_inside": 20}},
        "rule": R("hostile class: outside party rewrites the record with a 29-production payload grammar (incl. malformed values that begin with or wrap a well-formed own record), deletes/expires it, Get faults, probes with background/cancelled/deadline contexts and contexts the application cancels mid-call, probes parked inside their Get while the record changes; oracle: verdict vs. record versions live during the call interval"), "assumptions": SIM_ASSUME},
    "C05": {"level": "exploration", "trigger": ["c05.acquisitions"],
        "batches": [sim("reconnectrenew", 8, 80), rt("rt", 16, 200, chunk=2, timeout=1200), sim("acklosttakeover", 12, 120), sim("healthleak", 72, 720), sim("fastbeat", 75, 750), sim("slowbeat", 50, 500), sim("multiterm", 200, 4000), sim("benign", 100, 2000), sim("faulty", 100, 2000), sim("priorace", 60, 1500), sim("lifecycle", 100, 2000), sim("stoppoints", 150, 1000), sim("sinkrace", 54, 270), sim("holdrace", 350, 3500), sim("twocause", 126, 126), sim("dupacquire", 72, 720), sim("newlogline", 48, 96)],
        "min": {"quick": {"c05.refreshes": 2000, "c05.acquisitions": 300, "c05.insts_3terms": 50}},
        "rule": R("oracle over every record version ever written (process-wide token set across scenarios), promotion callback arguments and Token()/Status() at quiescent points"), "assumptions": SIM_ASSUME},
    "C06": {"level": "fault_enumeration", "trigger": ["c06.obligations"],
        "batches": [sim("bucketreset", 8, 80), sim("c06", 288, 5760), sim("faulty", 100, 2000), sim("benign", 60, 1000), sim("health2", 100, 1500), sim("multiterm", 60, 1000), sim("holdrace", 350, 3500), sim("hungrestart", 18, 180)],
        "min": {"quick": {"c06.vacancies": 150, "c06.obligations": 300}},
        "rule": R("c06 class enumerates removal kind (6) x candidate transient fault (6) x watch policy (4) x 2 passes; oracle: at every vacancy start / fault-cease / settle / demotion instant with a healthy settled instance, a healthy instance claims within B = 500ms + 100ms + 8 legs (+ callback delay)"), "assumptions": SIM_ASSUME},
    "C07": {"level": "exploration", "trigger": ["c07.terms"],
        "batches": [sim("sharedround", 4, 40), sim("lateloser", 6, 60), sim("restartinrelease", 8, 80), sim("stalecheck", 6, 60), sim("fastbeat", 75, 750), sim("slowbeat", 50, 500), sim("benign", 500, 12000), sim("yieldstop", 190, 570), sim("leftover", 150, 1500), sim("holdrace", 350, 3500), sim("slowdemote", 126, 252), sim("doublestop", 18, 180)],
        "min": {"quick": {"c07.terms": 300, "c07.terms_20h": 100}},
        "rule": R("benign class (see C02); oracle: no term ends, no token change, no lapse/owner change of a claiming leader's record unless the harness stopped it"), "assumptions": SIM_ASSUME},
    "C08": {"level": "exploration", "trigger": ["c08.promotes"],
        "batches": [sim("refuseddelete", 16, 160), sim("busypromote", 8, 80), sim("stalediag", 4, 40), sim("ordemotetwice", 8, 80), sim("lateloser", 6, 60), sim("promoterace", 16, 160), sim("fastbeat", 75, 750), sim("slowbeat", 50, 500), sim("multiterm", 200, 4000), sim("benign", 100, 2000), sim("faulty", 100, 2000), sim("connection", 60, 1000), sim("health2", 60, 1000), sim("hostile", 60, 1000), sim("lifecycle", 60, 1500), sim("restartinflight", 72, 216), sim("yieldstop", 190, 570), sim("leftover", 60, 600), sim("twocause", 126, 126), sim("holdrace", 350, 3500), sim("slowdemote", 126, 252), sim("dupacquire", 72, 720), sim("ctxcancel", 48, 480), sim("nowaitrestart", 18, 180), sim("newlogline", 48, 96)],
        "min": {"quick": {"c08.promotes": 500, "c08.demotes": 300, "c08.quiescent_checks": 5000}},
        "rule": R("oracle over the ordered callback log: strict alternation, one promotion per term with its token, IsLeader == (promotions - demotions == 1) at every quiescent point outside stop calls"), "assumptions": SIM_ASSUME},
    "C09": {"level": "fault_enumeration", "trigger": ["c09.stop_calls"],
        "batches": [sim("latedeleteack", 8, 80), sim("closewatchlate", 4, 40), sim("refuseddelete", 16, 160), sim("slowphases", 4, 40), sim("restartinrelease", 8, 80), sim("closewatchstop", 16, 160), sim("fastbeat", 75, 750), sim("slowbeat", 50, 500), sim("stoppoints", 500, 2280), sim("yieldstop", 190, 570), sim("restartinflight", 72, 216), sim("lifecycle", 150, 3000), sim("benign", 100, 1500), sim("slowsink", 57, 570), sim("holdrace", 350, 3500), sim("twoinflight", 24, 240), sim("slowdemote", 126, 252), sim("doublestop", 18, 180), sim("ctxcancel", 48, 480), sim("newlogline", 48, 96)],
        "min": {"quick": {"c09.stop_ok": 400, "c09.final_census": 500}},
        "rule": R("stoppoints enumerates (template cell: 20) x phase (issued-not-applied, applied-not-answered) x stop variant (17) x release delay (3) = 2040 cases (thorough: all); oracle: after the return of a successful stop no leadership claim, promotion, store-operation issue or transition; duration bounds; record gone with DeleteKey; no library goroutine left at the end"), "assumptions": SIM_ASSUME},
    "C10": {"level": "exploration", "trigger": ["c10.takeovers", "c10.refused", "c10.prompt_obligations"],
        "batches": [sim("bigprio", 8, 80), sim("holddown", 4, 40), sim("acklosttakeover", 12, 120), sim("negprio", 24, 240), sim("priority", 405, 1620), sim("priorace", 150, 3000), sim("multiterm", 60, 1000), sim("refusedthen", 16, 160), sim("priosucc", 256, 1536), sim("holdrace", 350, 3500), sim("chaintakeover", 24, 240)],
        "min": {"quick": {"c10.takeovers": 100, "c10.prompt_obligations": 50}},
        "rule": R("priority class enumerates all assignments of priority {1,2,3} x takeover flag x start order for 2 instances (108) and 3 instances (1512) (thorough: all, exhaustive); priorace adds takeover racing the incumbent's heartbeat; oracle: safety over every replacement of a live record, promptness 3H and final owner/stability in the fault-free class"), "assumptions": SIM_ASSUME},
    "C11": {"level": "fault_enumeration", "trigger": ["c11.notifications"],
        "batches": [sim("reconnectrenew", 8, 80), sim("stalestamp", 12, 120), sim("connection", 400, 6000), sim("multiterm", 60, 1000), sim("slowsink", 57, 570), sim("holdrace", 350, 3500), sim("outage", 24, 240)],
        "min": {"quick": {"c11.grace_obligations": 50, "c11.verifications": 50}},
        "rule": R("connection class: notification words over {disconnect, reconnect, closed} up to length 6 with gaps on a lattice around 100ms and the grace period, 4 grace settings, store outages and ownership changes during the outage, stops; notifications are injected through the handlers the monitor registers on an unconnected nats.Conn; oracle: grace timing, verification iff, deadlock watchdog"), "assumptions": SIM_ASSUME},
    "C12": {"level": "exploration", "trigger": ["c12.checks"],
        "batches": [sim("bigthreshold", 8, 80), sim("health", 1500, 27300, chunk=100), sim("health2", 200, 4000), sim("multiterm", 60, 1000), sim("healthleak", 72, 720), sim("holdrace", 350, 3500), sim("healthconn", 24, 240), sim("healthupd", 18, 180)],
        "min": {"quick": {"c12.health_demotions": 200, "c12.multi_term_histories": 100}},
        "rule": R("health class enumerates result words over {healthy, unhealthy, slow-false, slow-true} of length 1..6 x thresholds {0(default 3),1,2,3,4} (27300; thorough: all), each word repeated over several terms; oracle: reference counter replay over the checker's call log"), "assumptions": SIM_ASSUME},
    "C13": {"level": "exploration", "trigger": ["c13.claims", "c13.outside.Put"],
        "batches": [sim("hostile", 400, 8000, chunk=10), sim("holdrace", 350, 3500)],
        "min": {"quick": {"c13.outside.Put": 300, "c13.tamper_under_leader": 50}},
        "rule": R("hostile class (see C04) for followers, leaders and takeover-enabled candidates, zero and non-zero latency; oracle: crash / stack overflow / stall / recursion census, claims must stem from the instance's own acquisition write, tampered leader demoted within the C03(a) bound"), "assumptions": SIM_ASSUME},
    "C18": {"level": "exploration", "trigger": ["c18.snapshots"],
        "batches": [sim("latedeleteack", 8, 80), sim("slowdemote", 126, 252), rt("rt", 16, 200, chunk=2, timeout=1200), sim("promoterace", 16, 160), sim("fastbeat", 75, 750), sim("slowbeat", 50, 500), sim("benign", 100, 2000), sim("faulty", 100, 2000), sim("multiterm", 100, 2000), sim("lifecycle", 60, 1500), sim("priorace", 60, 1000), sim("connection", 60, 1000), sim("hostile", 60, 1000), sim("restartinflight", 72, 216), sim("slowsink", 57, 570), sim("holdrace", 350, 3500), sim("ctxcancel", 48, 480), sim("newlogline", 48, 96)],
        "min": {"quick": {"c18.snapshots": 5000, "c18.transitions": 1000}},
        "rule": R("oracle over Status() snapshots at quiescent points (synctest.Wait), the recording Metrics (is-leader gauge, transition chain) and the store log"), "assumptions": SIM_ASSUME},
    "C19": {"level": "exploration", "trigger": ["c19.ended_checks"],
        "batches": [sim("stalediag", 4, 40), sim("promoterace", 16, 160), sim("latepromote", 8, 80), sim("ctxcancel", 48, 480), sim("fastbeat", 75, 750), sim("slowbeat", 50, 500), sim("multiterm", 250, 4000), sim("benign", 100, 1500), sim("connection", 60, 1000), sim("lifecycle", 100, 1500), sim("stoppoints", 200, 1000), sim("yieldstop", 190, 570), sim("restartinflight", 72, 216), sim("holdrace", 350, 3500), sim("lateregister", 24, 240), sim("slowdemote", 126, 252), sim("dupacquire", 72, 720), sim("newlogline", 48, 96)],
        "min": {"quick": {"c19.ended_checks": 100}},
        "rule": R("promotion callbacks that block on their context; oracle: Done() state of each term's context at quiescent points vs. the term's end"), "assumptions": SIM_ASSUME},

    "C15": {"level": "exploration", "trigger": ["c15.expected_transient", "c15.expected_permanent", "c15.neutral", "c15.ambiguous", "c15.captured"],
        "batches": [pure("c15", 40, 1000), nats("c15captured", 1, 3, chunk=1)],
        "min": {"quick": {"c15.expected_transient": 5000, "c15.expected_permanent": 5000, "c15.captured": 8}},
        "rule": "batch k = 5000 error trees (depth <= 4) drawn by a PCG stream seeded with (VERIF_SEED, k): leaves = library sentinels and constructors, context errors, NATS client errors and API errors, free texts over a vocabulary holding every pattern of both classifiers; inner nodes = %w wrapping (single, double), errors.Join and the library's wrapper types; oracle: laws on every value, documented class on unambiguous trees, and the same verdicts when 8 goroutines classify the batch's values at once (20 000 classifications per batch); plus the error values captured from an embedded nats-server through the library's adapter; non-trivial = every generated tree; distinct = distinct tree descriptions",
        "assumptions": ["oracle classes transcribe the property statement; trees mixing documented-transient and documented-permanent leaves, or holding free text with a classifier pattern, are only subject to the exclusivity/totality laws"]},
    "C16": {"level": "exploration", "trigger": ["c16.expected_accept", "c16.expected_reject"], "exhaustive": "c16.exhaustive",
        "batches": [pure("c16", 8, 125, chunk=8), pure("c16rand", 5, 50, chunk=2)],
        "min": {"quick": {"c16.expected_accept": 1000, "c16.expected_reject": 100000}},
        "rule": "full product lattice: H in {-1ns,0,1ns,1ms,1s,1h,1y} x TTL in {-1ns,0,1ns,3H-1ns,3H,3H+1ns,4y} x ValidationInterval in {-1ns,0,1ns,H-1ns,H,H+1ns} x DisconnectGracePeriod in {-1ns,0,1ns,2H-1ns,2H,2H+1ns} x MaxConsecutiveFailures in {-1,0,1} x Priority in {-1,0,1} x takeover x (Bucket,Group,InstanceID) in {empty, x[, space, unicode, 4KiB]}^3 (quick: 2 strings = 254016 configurations; thorough: 5 strings = 3969000, exhaustive) plus 20000 random configurations per batch; every configuration goes through leader.NewElection with a counting provider; oracle = independently written predicate (big-integer arithmetic), offending-field set, provider call counters; distinct = configurations",
        "assumptions": ["durations up to one year (4 years for TTL): the 3xH overflow region is outside the quantifier"]},
    "C17": {"level": "exploration", "trigger": ["c17.backoff_inputs", "c17.retry_scripts", "c17.breaker_scripts", "c17.rounds"],
        "batches": [pure("c17backoff", 50, 1000), pure("c17retry", 100, 2000), pure("c17breaker", 100, 2000), sim("benign", 100, 2000), sim("c06", 100, 2000), sim("faulty", 60, 1000), sim("lateanswer", 36, 360)],
        "min": {"quick": {"c17.backoff_inputs": 50000, "c17.retry_scripts": 10000, "c17.breaker_scripts": 10000, "c17.rounds": 500}},
        "rule": "backoff: 2000 configurations x attempt numbers in {0..70,100,1023,1024,1e4,1e6,MaxInt32,MaxInt} per batch, 10 draws each, against min(Max, Initial*Mult^n) in big-float arithmetic; retry: 200 outcome scripts over {ok,transient,permanent} x MaxAttempts 0..6 x cancellation times per batch inside a synctest bubble (exact virtual invocation times), every third script through a CircuitBreaker that never opens; breaker: 200 scripts of (dt on the cooldown lattice, outcome) per batch against a reference automaton; acquisition rounds: every round observed in the SIM traces (first attempt 10-100 ms after the round start, at most 4 attempts, backoff within 10%); distinct = distinct inputs/scripts/traces",
        "assumptions": ["domain committed in DESIGN §9 C17 (Multiplier >= 1, Jitter in [0,1], non-negative durations)"]},

    "C14": {"level": "exploration", "trigger": ["c14.diff_words", "c14.lin_histories", "c14.watch_runs"], "jobs": 8,
        "batches": [nats("c14diff", 26, 250, chunk=2), nats("c14lin", 10, 100, chunk=2), nats("c14watch", 6, 60, chunk=2)],
        "min": {"quick": {"c14.diff_words": 300, "c14.diff_words_expiry": 20, "c14.lin_histories": 50, "c14.watch_runs": 20}},
        "rule": "engine NATS (embedded nats-server 2.12.2 started by the repo's own helper, the library's real adapter obtained through the verif hook): (1) differential: batch = 12 generated sequential operation words (every write of a word carries a TTL option like the election's: none / the bucket's / 1 ms / ten times the bucket's) over {Create, Update with fresh/latest/stale/zero revision, Get, Delete, Watch, wait-for-expiry} x values {empty, binary, 64 KiB, JSON} on 1-3 keys, executed on the adapter and on the reference model and compared outcome by outcome (success, error identity and text, value, revision); (2) linearizability: batch = 6 histories of 4-8 concurrent clients on 2 keys, call/return stamped by one monotonic clock, checked with porcupine v1.3.0 against the KV contract (every third history runs on the reference store itself); (3) watch contract: batch = 5 runs of a consumer calling Updates() before every receive while a writer performs 10-40 writes/deletes; distinct = distinct operation words / histories / runs",
        "assumptions": ["single embedded server on loopback (no clustering)", "on history-1 buckets JetStream itself coalesces rapid successive changes: there the watch clause is judged as in-order duplicate-free subsequence ending in the final state (full clause on history-64 buckets)"]},

    "C20": {"level": "exploration", "race": True, "trigger": ["c20.scenarios"], "jobs": 8,
        "batches": [rt("rt", 48, 400, chunk=2, timeout=1200), sim("closewatchlate", 4, 40), sim("closewatchstop", 16, 160)],
        "min": {"quick": {"c20.calls.Status": 2000, "c20.calls.ValidateToken": 2000, "c20.calls.Start": 200, "c20.calls.Stop": 50, "c20.calls.conn.D": 30, "c20.terms": 50}},
        "rule": "engine RT: the real library in real time (no bubble) built with -race, 2-4 instances with H = 20-50 ms against the reference store with real sleeps, 1.5 s per scenario; hammer goroutines per instance: 2 pollers (IsLeader/LeaderID/Token/Status), validator (ValidateToken / ValidateTokenOrDemote), callback re-registration, 2 lifecycle goroutines (Stop / StopWithContext / Start), a connection-notification dispatcher invoking the handlers the monitor registered (also stale ones), plus an outside party rewriting/deleting the record; oracle: GORACE halt_on_error=0 log files, every WARNING: DATA RACE block normalised to the pair of innermost library functions; distinct = scenarios (each a different configuration and schedule); plus two enumerated virtual-time classes around a store-side watch close (closewatchstop, closewatchlate) run on the SIM engine built with -race",
        "assumptions": ["the harness records events under one mutex: two library accesses that are only ordered through two recorded events are ordered for the race detector too (seeded change C20-r11 is missed for that reason)", "the race detector only sees races between accesses that actually execute concurrently in these runs", "harness monitors are race-free (a report without library frames makes the run inconclusive)"]},
}
