# Per-property configuration of the driver: which engine/class batches make up the
# quick and thorough tiers (fixed case-list lengths, no time budgets), which
# observation counters are the property's triggers, and the trigger minimums below
# which a run is inconclusive.

def sim(cls, quick, thorough, chunk=25, **kw):
    d = {"engine": "sim", "class": cls, "quick": quick, "thorough": thorough, "chunk": chunk}
    d.update(kw)
    return d

SIM_ASSUME = [
    "reference store (harness/h/refstore.go) models JetStream KV as calibrated by the C14 differential check",
    "library jitter (math/rand/v2 global) and goroutine order at equal virtual instants are not controlled: a spec denotes a family of executions",
    "virtual time from testing/synctest (go1.25.4)",
]

PROPS = {
    "C02": {
        "level": "exploration",
        "batches": [sim("benign", 400, 10000)],
        "trigger": ["c02.flag_up"],
        "min": {"quick": {"c02.terms": 300, "c02.stops": 100, "c02.stops_inflight": 30}},
        "rule": "scenario k of class benign = pure function of (VERIF_SEED, k): 1-5 instances x 1-2 groups, H/TTL grid, latency < H/2, watch delay/drop/dup, random Start/Stop/StopWithContext/restart; oracle: instant cross-read of every instance's IsLeader() and the live record inside Metrics.SetIsLeader and at every record change; non-trivial = at least one leadership claim observed; distinct = distinct hash of the abstracted trace (event kind, role, cause; times/tokens removed)",
        "assumptions": SIM_ASSUME,
    },
    "C07": {
        "level": "exploration",
        "batches": [sim("benign", 400, 10000)],
        "trigger": ["c07.terms"],
        "min": {"quick": {"c07.terms": 300, "c07.terms_20h": 100}},
        "rule": "benign class (see C02); oracle: no term ends, no token change, no lapse/owner change of a claiming leader's record unless the harness stopped it; non-trivial = at least one term; distinct = abstracted-trace hash",
        "assumptions": SIM_ASSUME,
    },
}
